"""Root component used by the end-to-end tier of the C16 check: writes what it was started with."""
from __future__ import annotations

import json
import os
from typing import Any

import sniffio
from anyio import to_thread

from asphalt.core import CLIApplicationComponent


class Recorder(CLIApplicationComponent):
    def __init__(self, **kwargs: Any) -> None:
        self.kwargs = kwargs

    async def run(self) -> int:
        out = os.environ["VERIF_CLI_OUT"]
        data = {"kwargs": self.kwargs, "backend": sniffio.current_async_library(),
                "max_threads": to_thread.current_default_thread_limiter().total_tokens}
        with open(out, "w") as f:
            json.dump(data, f, default=repr)
        return 0
