"""Fixture components reachable through the real importlib.metadata entry-point route
(group asphalt.components, see verif_fixture-1.0.dist-info/entry_points.txt).

The four classes are static (has prepare / has start is decided by asphalt from the class), their
behaviour is looked up per instance in REGISTRY under the ``verif_path`` constructor argument, so
that generated programs can use entry-point names and `module:attr` references for their nodes.
"""
from __future__ import annotations

from typing import Any

from asphalt.core import Component

REGISTRY: dict[str, dict[str, Any]] = {}


class _Delegating(Component):
    ep_name = ""

    def __init__(self, verif_path: str | None = None, **kwargs: Any) -> None:
        # without a verif_path (type derived from the alias, configuration None) the registry is keyed by entry point
        self._verif_path = verif_path if verif_path is not None else f"__alias__:{self.ep_name}"
        REGISTRY[self._verif_path]["ctor"](self, **kwargs)


class VFNone(_Delegating):
    ep_name = "vf_none"


class VFPrepare(_Delegating):
    ep_name = "vf_prepare"

    async def prepare(self) -> None:
        await REGISTRY[self._verif_path]["prepare"](self)


class VFStart(_Delegating):
    ep_name = "vf_start"

    async def start(self) -> None:
        await REGISTRY[self._verif_path]["start"](self)


class VFBoth(_Delegating):
    ep_name = "vf_both"

    async def prepare(self) -> None:
        await REGISTRY[self._verif_path]["prepare"](self)

    async def start(self) -> None:
        await REGISTRY[self._verif_path]["start"](self)


BY_SHAPE = {(False, False): ("vf_none", VFNone), (True, False): ("vf_prepare", VFPrepare), (False, True): ("vf_start", VFStart),
            (True, True): ("vf_both", VFBoth)}
