"""E3 - teardown programs (DESIGN.md section 2, C01; also used for C12 restoration).

A *program* describes one context, how callbacks are registered on it (four routes, also from
inside running callbacks), how each callback behaves (sync / async / sync returning an awaitable,
checkpoints, which exception class it raises) and how the block is left and driven.  The
interpreter executes it against the real asphalt code and records a Trace through the
harness-owned probes only; ``check_trace`` is the offline oracle.
"""
from __future__ import annotations

import asyncio
from contextlib import AsyncExitStack
from typing import Any

import anyio
from anyio import CancelScope, create_task_group
from anyio.lowlevel import checkpoint

import vkit  # noqa: F401
from vkit.trace import (
    EXC_KINDS,
    Trace,
    contains_same,
    same_exc,
    describe_exc,
    groups,
    is_cancellation,
    make_exc,
)
from vkit.vtime import run_virtual

ROUTES = ["direct", "shortcut", "resource", "ctxteardown", "service"]
RES_TYPES: list[type] = [type(f"ResT{j}", (), {}) for j in range(3)]

# --------------------------------------------------------------------------- generation


def gen_cb(rng: Any, ids: list[int], depth: int, allow_service: bool, p_raise: float) -> dict[str, Any]:
    cid = ids[0]
    ids[0] += 1
    routes = ["direct", "direct", "shortcut", "resource", "ctxteardown"] + (["service"] if allow_service and depth == 0 else [])
    route = rng.choice(routes)
    kind = rng.choice(["sync", "async", "async", "sync_awaitable"])
    form = rng.choice(["function", "function", "function", "partial", "object", "unhashable_object", "misleading_signature", "equal_object", "equal_object", "opaque_object", "method_of_temporary", "falsy_object"])  # how the callable is given
    if route == "ctxteardown":
        kind = "async"
    cb: dict[str, Any] = {"id": cid, "route": route, "kind": kind, "pass_exception": False, "steps": [], "raises": None, "children": [], "form": form}
    if route in ("direct", "resource") and rng.random() < 0.2:
        cb["from_child"] = True
    elif route == "direct" and depth == 0 and rng.random() < 0.15:
        cb["beside_failed_start"] = True
    if route == "shortcut" and rng.random() < 0.3:
        cb["from_component"] = True
    if route == "resource":
        cb["ntypes"] = rng.choice([0, 1, 1, 2, 3])  # 0: type of the value; >1: one resource published under several types
    if route in ("direct", "shortcut"):
        cb["pass_exception"] = rng.random() < 0.5
    if route == "ctxteardown":
        cb["pass_exception"] = True
        # what the decorated function is called with: nothing, a *different* Context (the enclosing one when nested, else an
        # unrelated one) as first argument, or the same as a method's second argument - the teardown belongs to the context
        # that is current at the call, whatever is passed
        cb["call_args"] = rng.choice(["none", "none", "other_ctx", "method_other_ctx", "kw_other_ctx"])
        # the generator yields once (the usual case), returns or raises before its yield (nothing to tear down), or yields twice
        cb["gen_shape"] = rng.choice(["normal"] * 5 + ["no_yield", "raises_before_yield", "yields_twice"])
        # the part before the yield may itself register teardown callbacks (a resource with a teardown, a plain callback):
        # they were registered *before* the generator's own second half and therefore run after it
        cb["setup_children"] = []
        if depth < 2 and rng.random() < 0.35:
            for _ in range(rng.randint(1, 2)):
                ch = gen_cb(rng, ids, depth + 1, False, p_raise)
                if ch["route"] != "ctxteardown":
                    cb["setup_children"].append(ch)
    if kind != "sync":
        for _ in range(rng.randint(0, 2)):
            cb["steps"].append(rng.choice([["yield", rng.randint(1, 3)], ["sleep", rng.choice([0.5, 1, 2])]]))
    if route == "service":
        cb["action"] = rng.choice(["cancel", "sync_callable", "async_callable"])
        cb["kind"] = "async"
        return cb
    if rng.random() < p_raise:
        cb["raises"] = rng.choice(EXC_KINDS)
        if cb["pass_exception"] and rng.random() < 0.25:
            cb["raises"] = "RERAISE"  # the callback re-raises the very exception it was handed (nothing if the exit was clean)
    if depth < 2 and rng.random() < (0.3 if depth == 0 else 0.15):
        for _ in range(rng.randint(1, 2)):
            cb["children"].append(gen_cb(rng, ids, depth + 1, False, p_raise))
        cb["children_when"] = rng.choice(["first", "last"]) if cb["steps"] else "first"
    return cb


def gen_program(rng: Any, *, max_cbs: int = 8, for_sweep: bool = False) -> dict[str, Any]:
    ids = [0]
    backend = rng.choice(["asyncio", "trio"])
    driver = "with" if for_sweep else rng.choice(["with"] * 6 + ["stack", "stack", "manual"])
    in_handler = (not for_sweep) and rng.random() < 0.15
    p_raise = rng.choice([0.0, 0.15, 0.35, 0.7])
    n = rng.choice([0, 1, 2, 3, 3, 4, 5, 6, 8]) if max_cbs >= 8 else rng.randint(0, max_cbs)
    n = min(n, max_cbs)
    body: list[Any] = []
    for _ in range(n):
        if rng.random() < 0.3:
            body.append({"op": rng.choice(["yield", "sleep"]), "k": rng.choice([1, 2, 0.5])})
        body.append({"op": "reg", "cb": gen_cb(rng, ids, 0, allow_service=not for_sweep, p_raise=p_raise)})
    regs = [op["cb"] for op in body if op["op"] == "reg"]
    if regs and regs[-1]["route"] == "ctxteardown" and regs[-1]["gen_shape"] == "normal" and not regs[-1]["setup_children"] and rng.random() < 0.6:
        # the *last* registration of the block is a @context_teardown function that holds a context of its own open across its
        # yield (from then on that context is the current one in this task, which is why nothing else is registered after it)
        regs[-1]["gen_shape"] = "own_context"
        regs[-1]["children"] = []
    if rng.random() < 0.3:
        body.append({"op": "yield", "k": 1})
    if for_sweep:
        end = {"kind": rng.choice(["return", "hang", "hang"])}
    elif driver == "manual":
        end = {"kind": rng.choice(["return", "raise"]), "exc": rng.choice(EXC_KINDS)}
    else:
        end = {"kind": rng.choice(["return", "return", "raise", "raise"]), "exc": rng.choice(EXC_KINDS)}
    prog = {
        "backend": backend,
        "sched_seed": rng.randrange(1 << 30),
        "shuffle": rng.random() < 0.5,
        "nested": rng.random() < 0.5,
        "sibling": rng.random() < 0.4,
        "driver": driver,
        "in_handler": in_handler,
        "later_raises": driver == "stack" and rng.random() < 0.6,
        "body": body,
        "end": end,
        "cancel": None,
    }
    return prog


def all_cbs(prog: dict[str, Any]) -> list[dict[str, Any]]:
    out = []

    def rec(cb: dict[str, Any]) -> None:
        out.append(cb)
        for c in cb.get("setup_children", []):
            rec(c)
        for c in cb["children"]:
            rec(c)

    for st in prog["body"]:
        if st["op"] == "reg":
            rec(st["cb"])
    return out


# --------------------------------------------------------------------------- interpretation


class Run:
    def __init__(self, prog: dict[str, Any]) -> None:
        self.prog = prog
        self.trace = Trace()
        self.raised: dict[int, BaseException] = {}  # cb id -> object raised by the probe (incl. cancellation)
        self.received: dict[int, Any] = {}
        self.block_exc: BaseException | None = None  # EB: exception that ended the block (from ctx's view)
        self.boundary: BaseException | None = None
        self.boundary_recorded = False
        self.closed_after: bool | None = None
        self.closed_inside: list[bool] = []
        self.ctx: Any = None
        self.scope: CancelScope | None = None
        self.host_task: Any = None
        self.current_ok = True
        self.loop_crash: BaseException | None = None
        self.outer_ctx: Any = None
        self.unrelated_ctx: Any = None
        self.other_ctx_calls = 0
        self.generator_based_awaitables = 0
        self.from_component_registrations = 0
        self.outer_ready = anyio.Event()
        self.main_left = anyio.Event()
        self.sibling_done = anyio.Event()
        self.sibling_in_teardown = False
        self.failed_service_starts = 0
        self.gen_shapes: dict[str, int] = {}
        self.own_ctxs: dict[int, Any] = {}  # contexts that @context_teardown generators hold open themselves across their yield
        self.setup_registrations = 0
        self.from_child_registrations = 0

    # ---- probes -------------------------------------------------------------------------

    async def _steps(self, cb: dict[str, Any], actor: Any) -> None:
        for kind, k in cb["steps"]:
            if kind == "yield":
                for _ in range(int(k)):
                    await checkpoint()
            else:
                await anyio.sleep(k)

    async def _register_children(self, cb: dict[str, Any]) -> None:
        for child in cb["children"]:
            await self.register(child, during_teardown=True)

    def _register_children_sync(self, cb: dict[str, Any]) -> None:
        for child in cb["children"]:
            self.register_sync(child, during_teardown=True)

    def make_probe(self, cb: dict[str, Any]) -> Any:
        run = self
        cid = cb["id"]

        def begin(args: tuple[Any, ...]) -> None:
            arg = args[0] if args else "<no-arg>"
            run.received[cid] = arg
            run.closed_inside.append(bool(run.ctx.closed))
            try:
                from asphalt.core import current_context

                if current_context() is not run.own_ctxs.get(cid, run.ctx):
                    run.current_ok = False
            except Exception:
                run.current_ok = False
            run.trace.log("begin", cid, nargs=len(args))

        def finish(exc: BaseException | None) -> None:
            if exc is not None:
                run.raised[cid] = exc
            run.trace.log("end", cid, raised=describe_exc(exc), interrupted=bool(exc is not None and is_cancellation(exc) and cb["raises"] in (None, "RERAISE")))

        def maybe_raise() -> None:
            if cb["raises"] == "RERAISE":
                got = run.received.get(cid)
                if isinstance(got, BaseException):
                    raise got
            elif cb["raises"]:
                raise make_exc(cb["raises"], cid)

        if cb["kind"] == "sync":

            def sync_probe(*args: Any) -> None:
                begin(args)
                try:
                    run._register_children_sync(cb)
                    maybe_raise()
                except BaseException as e:
                    finish(e)
                    raise
                finish(None)

            return sync_probe

        async def body() -> None:
            try:
                if cb["children"] and cb.get("children_when") == "first":
                    await run._register_children(cb)
                await run._steps(cb, cid)
                if cb["children"] and cb.get("children_when") != "first":
                    await run._register_children(cb)
                maybe_raise()
            except BaseException as e:
                finish(e)
                raise
            finish(None)

        if cb["kind"] == "async":

            async def async_probe(*args: Any) -> None:
                begin(args)
                await body()

            return async_probe

        class Awaitable:
            def __init__(self) -> None:
                self.coro = body()

            def __await__(self) -> Any:
                return self.coro.__await__()

        import types

        @types.coroutine
        def generator_based() -> Any:
            # a generator-based coroutine (`@types.coroutine`, what older libraries and some C extensions hand out): awaitable, but
            # neither a coroutine object nor an instance of collections.abc.Awaitable
            return (yield from body().__await__())

        def sync_awaitable_probe(*args: Any) -> Any:
            begin(args)
            if cb["id"] % 2:
                run.generator_based_awaitables += 1
                return generator_based()
            return Awaitable()

        return sync_awaitable_probe

    # ---- registration routes ----------------------------------------------------------------

    def register_sync(self, cb: dict[str, Any], during_teardown: bool = False) -> None:
        """routes available from synchronous code"""
        route = cb["route"]
        if route in ("ctxteardown", "service"):
            route = "direct"
        self._register_simple(cb, route, during_teardown)

    def _register_simple(self, cb: dict[str, Any], route: str, during_teardown: bool) -> None:
        from asphalt.core import add_teardown_callback

        probe = self.make_probe(cb)
        form = cb.get("form", "function")
        if form == "partial":
            import functools

            probe = functools.partial(probe)
        elif form == "misleading_signature":
            # a decorated callback: functools.wraps makes introspection report the wrapped function's signature - one that does
            # not fit the way the callback is called - while the callable itself accepts the call
            import functools

            inner_probe = probe
            if cb["pass_exception"]:
                def original() -> None:  # pragma: no cover - never called
                    raise AssertionError
            else:
                def original(connection: Any, mode: Any) -> None:  # type: ignore[misc]  # pragma: no cover - never called
                    raise AssertionError

            @functools.wraps(original)
            def probe(*a: Any, **k: Any) -> Any:  # noqa: F811
                return inner_probe(*a, **k)
        elif form == "method_of_temporary":
            # a bound method of an object that nothing else refers to (`add_teardown_callback(LockFile(path).release)`): the
            # registration is what keeps it alive until the teardown
            inner_m = probe
            if cb["kind"] == "async":
                class Temporary:
                    async def release(self, *a: Any) -> Any:
                        return await inner_m(*a)
            else:
                class Temporary:  # type: ignore[no-redef]
                    def release(self, *a: Any) -> Any:
                        return inner_m(*a)

            probe = Temporary().release
            import gc

            gc.collect()
        elif form in ("object", "unhashable_object", "equal_object", "opaque_object", "falsy_object"):
            inner = probe
            # "unhashable": a callable object with __eq__ but no __hash__ (what a plain @dataclass with __call__ is);
            # "equal": callable objects with value semantics - every one of them compares (and hashes) equal to every other one,
            # as two `Closer(pool)` instances for the same pool would; each registration is still a callback of its own
            extra: dict[str, Any] = {"__eq__": lambda s, o: s is o, "__hash__": None} if form == "unhashable_object" else {}
            if form == "equal_object":
                extra = {"is_equal_probe": True, "__eq__": lambda s, o: getattr(o, "is_equal_probe", False), "__hash__": lambda s: 3}
            if form == "falsy_object":
                # a callable object whose truth value is False (a clean-up list that is still empty, a flag object): a callback
                extra = {"__len__": lambda s: 0}
            if form == "opaque_object":
                # a callable object that cannot be printed (its repr()/str() needs a connection that an earlier-run callback has
                # closed, say): it is a teardown callback all the same
                def no_repr(s: Any) -> str:
                    raise RuntimeError("this object cannot be shown any more")

                extra = {"__repr__": no_repr, "__str__": no_repr}
            if cb["kind"] == "async":

                async def acall(self: Any, *a: Any) -> Any:
                    return await inner(*a)

                probe = type("AsyncCallableObject", (), {"__call__": acall, **extra})()
            else:

                def scall(self: Any, *a: Any) -> Any:
                    return inner(*a)

                probe = type("CallableObject", (), {"__call__": scall, **extra})()
        try:
            if route == "direct":
                if cb["id"] % 2:
                    self.ctx.add_teardown_callback(probe, pass_exception=cb["pass_exception"])
                elif not cb["pass_exception"] and cb["id"] % 4 == 0:
                    self.ctx.add_teardown_callback(probe)
                else:
                    self.ctx.add_teardown_callback(probe, cb["pass_exception"])
            elif route == "shortcut":
                if cb["id"] % 2:
                    add_teardown_callback(probe, pass_exception=cb["pass_exception"])
                elif not cb["pass_exception"] and cb["id"] % 4 == 0:
                    add_teardown_callback(probe)
                else:
                    add_teardown_callback(probe, cb["pass_exception"])
            elif route == "resource":
                n = cb.get("ntypes", 0)
                # (every other resource is an empty list: distinct objects that all compare equal - each has a teardown of its own)
                value: Any = [] if cb["id"] % 2 else object()
                if n == 0:
                    self.ctx.add_resource(value, f"res{cb['id']}", teardown_callback=probe)
                else:
                    self.ctx.add_resource(value, f"res{cb['id']}", [RES_TYPES[j] for j in range(n)], teardown_callback=probe)
        except BaseException as e:
            self.trace.log("register-failed", cb["id"], error=describe_exc(e))
            raise
        self.trace.log("register", cb["id"], route=route, during_teardown=during_teardown)

    async def register(self, cb: dict[str, Any], during_teardown: bool = False) -> None:
        from asphalt.core import context_teardown

        route = cb["route"]
        if route in ("direct", "shortcut", "resource"):
            if cb.get("from_child") and route != "shortcut":
                # registered on the owner *explicitly* while a short-lived child context of it is the current one (a request
                # handler adding something to the application context): the callback belongs to the owner all the same
                from asphalt.core import Context

                async with Context():
                    self._register_simple(cb, route, during_teardown)
                self.from_child_registrations += 1
                return
            if cb.get("from_component") and route == "shortcut" and not during_teardown:
                # registered by a component while it starts (its current context is a component context, which hands the
                # registration on to the context the tree is started in): a callback of that context like any other
                from asphalt.core import Component, start_component

                class Registering(Component):
                    async def start(self_inner) -> None:  # noqa: N805
                        self._register_simple(cb, route, during_teardown)

                await start_component(Registering, timeout=None)
                self.from_component_registrations += 1
                return
            if cb.get("beside_failed_start") and not during_teardown:
                # registered by one task while, in a sibling task, a service task of the same context is starting up - and then fails
                # to start: the failed start leaves nothing behind and takes nothing away
                async def never_starts(*, task_status: Any) -> None:
                    await checkpoint()
                    raise RuntimeError("the service could not start")

                async def starter() -> None:
                    try:
                        await self.ctx.start_service_task(never_starts, f"failing{cb['id']}")
                    except BaseException as e:
                        if is_cancellation(e):
                            raise
                        self.failed_service_starts += 1

                async def sibling() -> None:
                    self._register_simple(cb, route, during_teardown)

                async with create_task_group() as stg:
                    stg.start_soon(starter)
                    stg.start_soon(sibling)
                return
            self._register_simple(cb, route, during_teardown)
            return
        run = self
        cid = cb["id"]
        if route == "ctxteardown":
            probe = self.make_probe(cb)

            shape = cb.get("gen_shape", "normal")

            class SetupFailed(Exception):
                pass

            def make_agen() -> Any:
                async def agen(*args: Any, **kwargs: Any) -> Any:
                    run.trace.log("setup", cid)
                    for ch in cb.get("setup_children", []):
                        await run.register(ch, during_teardown)
                        run.setup_registrations += 1
                    if shape == "no_yield":
                        return  # decides at run time that there is nothing to clean up: nothing is registered
                    if shape == "raises_before_yield":
                        raise SetupFailed(f"set-up part of @context_teardown function {cid} failed")
                    if shape == "own_context":
                        # the function wraps a context of its own around its yield (a scope for what it sets up): the second half
                        # still belongs to the context the function was *called* in, and runs when that one is left
                        from asphalt.core import Context as _Context

                        async with _Context() as own:
                            run.own_ctxs[cid] = own
                            exc = yield
                            await probe(exc)
                        return
                    exc = yield
                    await probe(exc)
                    if shape == "yields_twice":
                        yield  # a second yield: the generator is closed here, the teardown step is over all the same

                return agen

            gen = context_teardown(make_agen())
            Holder = type("Holder", (), {"gen": context_teardown(make_agen())})
            how = cb.get("call_args", "none")
            other = self.outer_ctx if self.outer_ctx is not None else self.unrelated_ctx
            try:
                if how == "other_ctx":
                    await gen(other)
                elif how == "method_other_ctx":
                    await Holder().gen(other)
                elif how == "kw_other_ctx":
                    await gen(ctx=other)
                else:
                    await gen()
            except SetupFailed:
                self.gen_shapes["raises_before_yield"] = self.gen_shapes.get("raises_before_yield", 0) + 1
                return
            except Exception as e:
                if shape == "raises_before_yield" or not during_teardown:
                    raise
                # (a @context_teardown function called while the teardown is running - from a teardown callback - is a registration
                # like any other: refusing it is a violation of its own, not "the calling callback raised")
                self.trace.log("register-failed", cid, error=describe_exc(e))
                return
            if how != "none":
                self.other_ctx_calls += 1
            if shape != "normal":
                self.gen_shapes[shape] = self.gen_shapes.get(shape, 0) + 1
            if shape == "no_yield":
                return  # nothing was registered
            self.trace.log("register", cid, route=route, during_teardown=during_teardown)
            return
        # service task: the "callback" is the task's stop sequence
        stop = anyio.Event()

        async def service(*, task_status: Any) -> None:
            task_status.started()
            cancelled = False
            try:
                if cb["action"] == "cancel":
                    await anyio.sleep_forever()
                else:
                    await stop.wait()
            except BaseException as e:
                if not is_cancellation(e):
                    raise
                cancelled = True
                run.closed_inside.append(bool(run.ctx.closed))
                run.trace.log("begin", cid, via="cancel")
            with CancelScope(shield=cancelled):
                await run._steps(cb, cid)
            run.trace.log("end", cid, raised=None, interrupted=False)

        def action_sync() -> None:
            run.closed_inside.append(bool(run.ctx.closed))
            run.trace.log("begin", cid, via="action")
            stop.set()

        async def action_async() -> None:
            run.closed_inside.append(bool(run.ctx.closed))
            run.trace.log("begin", cid, via="action")
            await checkpoint()
            stop.set()

        action: Any = {"cancel": "cancel", "sync_callable": action_sync, "async_callable": action_async}[cb["action"]]
        await self.ctx.start_service_task(service, f"svc{cid}", teardown_action=action)
        self.trace.log("register", cid, route=route, during_teardown=during_teardown)

    # ---- the block ----------------------------------------------------------------------------

    async def body(self) -> None:
        for st in self.prog["body"]:
            if st["op"] == "reg":
                await self.register(st["cb"])
            elif st["op"] == "yield":
                for _ in range(int(st["k"]) or 1):
                    await checkpoint()
                self.trace.log("body-step", "body")
            else:
                await anyio.sleep(st["k"])
                self.trace.log("body-step", "body")
        end = self.prog["end"]
        self.trace.log("body-end", "body", how=end["kind"])
        if end["kind"] == "raise":
            raise make_exc(end["exc"], "block")
        if end["kind"] == "hang":
            await anyio.sleep(1000)
            self.trace.log("body-woke", "body")

    async def drive(self) -> None:
        """enter the context, run the body, leave; record EB and the boundary outcome *at the
        boundary itself* (inside every harness scope)"""
        from asphalt.core import Context

        prog = self.prog
        driver = prog["driver"]
        ctx = self.ctx = Context()
        self.unrelated_ctx = Context()  # never entered; only ever handed to @context_teardown functions as an argument

        async def guarded_body() -> None:
            try:
                await self.body()
            except BaseException as e:
                self.block_exc = e
                raise

        async def inner() -> None:
            if driver == "with":
                try:
                    async with ctx:
                        await guarded_body()
                except BaseException as e:
                    self.boundary = e
                self.boundary_recorded = True
            elif driver == "stack":

                class Later:
                    async def __aenter__(s) -> Any:
                        return s

                    async def __aexit__(s, et: Any, ev: Any, tb: Any) -> bool:
                        self.trace.log("later-exit", "later", got=describe_exc(ev))
                        if prog["later_raises"]:
                            err = RuntimeError("later exit failed")
                            self.block_exc = err
                            raise err
                        return False

                try:
                    async with AsyncExitStack() as st:
                        await st.enter_async_context(ctx)
                        await st.enter_async_context(Later())
                        await guarded_body()
                except BaseException as e:
                    self.boundary = e
                self.boundary_recorded = True
            else:  # manual __aexit__ call with explicit arguments, not inside a handler of that exception
                await ctx.__aenter__()
                eb: BaseException | None = None
                try:
                    await guarded_body()
                except BaseException as e:
                    eb = e
                if eb is not None:
                    eb = eb.with_traceback(None)
                self.block_exc = eb
                try:
                    suppressed = await ctx.__aexit__(type(eb) if eb else None, eb, None)
                except BaseException as e:
                    self.boundary = e
                else:
                    self.boundary = None if (suppressed or eb is None) else eb
                    if suppressed and eb is not None:
                        self.trace.log("suppressed", "ctx")
                self.boundary_recorded = True

        if prog["in_handler"]:
            try:
                raise LookupError("outer exception being handled by the caller")
            except LookupError:
                await inner()
        else:
            await inner()
        self.closed_after = bool(ctx.closed)

    async def main(self) -> None:
        from asphalt.core import Context

        prog = self.prog
        cancel = prog.get("cancel")
        self.trace.log("start", "harness")

        async def scoped() -> None:
            with CancelScope() as scope:
                self.scope = scope
                if prog["nested"]:
                    async with Context() as self.outer_ctx:
                        self.outer_ready.set()
                        try:
                            await self.drive()
                        finally:
                            self.main_left.set()
                            if prog.get("sibling"):
                                with CancelScope(shield=True):
                                    await self.sibling_done.wait()
                else:
                    await self.drive()

        async def controller(tg_scope: CancelScope) -> None:
            if cancel is None:
                raise RuntimeError("harness: no cancel spec")
            if cancel["t"] > 0:
                await anyio.sleep(cancel["t"])
            for _ in range(200):
                if len(self.trace) > cancel["after_event"]:
                    break
                await checkpoint()
            self.trace.log("cancel-request", "controller", native=bool(cancel.get("native")))
            if cancel.get("native"):
                self.host_task.cancel()
            else:
                if self.scope is None:
                    raise RuntimeError("harness: no scope")
                self.scope.cancel()

        async def sibling() -> None:
            # a sibling context (same parent) in another task whose own teardown is under way - suspended inside one of its
            # callbacks - for as long as the context under test is being left: the two teardowns have nothing to do with each other
            await self.outer_ready.wait()
            try:
                async with Context(self.outer_ctx) as sib:
                    async def hold() -> None:
                        self.sibling_in_teardown = True
                        await self.main_left.wait()

                    sib.add_teardown_callback(hold)
            finally:
                self.sibling_done.set()

        try:
            async with create_task_group() as sib_tg:
                if prog["nested"] and prog.get("sibling"):
                    sib_tg.start_soon(sibling)
                if cancel is None:
                    await scoped()
                elif cancel.get("native"):
                    loop = asyncio.get_running_loop()
                    self.host_task = loop.create_task(scoped())
                    async with create_task_group() as tg:
                        tg.start_soon(controller, tg.cancel_scope)
                        try:
                            await self.host_task
                        except BaseException:
                            pass
                        tg.cancel_scope.cancel()
                else:
                    async with create_task_group() as tg:
                        tg.start_soon(controller, tg.cancel_scope)
                        await scoped()
                        tg.cancel_scope.cancel()
                sib_tg.cancel_scope.cancel()
        except BaseException as e:  # whatever leaks past the scope is not a verdict by itself
            self.trace.log("escaped", "harness", exc=describe_exc(e))
        self.trace.log("finish", "harness")


def execute(prog: dict[str, Any]) -> Run:
    run = Run(prog)
    try:
        run_virtual(prog["backend"], run.main, sched_seed=prog["sched_seed"], shuffle=prog["shuffle"])
    except BaseException as e:
        # run.main() catches everything that propagates in the host task, so whatever arrives here went
        # around it: an injected KeyboardInterrupt/SystemExit raised in some *other* task (asyncio lets those
        # two kill the loop) or a virtual deadlock.
        run.loop_crash = e
        run.trace.log("loop-crash", "harness", exc=describe_exc(e))
    return run


# --------------------------------------------------------------------------- oracle


def check_trace(run: Run) -> list[dict[str, Any]]:
    prog = run.prog
    cbs = {cb["id"]: cb for cb in all_cbs(prog)}
    V: list[dict[str, Any]] = []

    def bad(key: str, msg: str, **w: Any) -> None:
        V.append({"key": key, "msg": msg, "witness": {**w, "trace": run.trace.compact(80)}})

    cancelled = prog.get("cancel") is not None
    stack: list[int] = []
    running: int | None = None
    begun: dict[int, int] = {}
    ended: set[int] = set()
    for e in run.trace.events:
        k, a = e["kind"], e["actor"]
        if k == "register":
            stack.append(a)
        elif k == "register-failed":
            # every registration the programs make is a valid one - also those made while the teardown is running
            bad("teardown-registration-refused", f"registering callback {a} ({cbs[a]['route']} route) raised {e.get('error')}", cb=cbs[a])
        elif k == "begin":
            begun[a] = begun.get(a, 0) + 1
            if begun[a] > 1:
                bad("teardown-twice", f"callback {a} invoked {begun[a]} times", cb=cbs[a])
                continue
            if running is not None:
                bad("teardown-overlap", f"callback {a} began while callback {running} (or the awaitable it returned) had not completed", cb=cbs[a])
            if not stack or stack[-1] != a:
                bad("teardown-order", f"callback {a} began but the most recently registered pending callback is {stack[-1] if stack else None} (pending, oldest first: {stack})")
                if a in stack:
                    stack.remove(a)
            else:
                stack.pop()
            running = a
        elif k == "end":
            ended.add(a)
            if running == a:
                running = None
    if run.loop_crash is not None:
        from vkit.vtime import VirtualDeadlock

        if isinstance(run.loop_crash, VirtualDeadlock):
            bad("teardown-deadlock", f"the program never finished: {run.loop_crash}")
        elif "injected" in str(run.loop_crash):
            bad("teardown-escaped-loop", f"{describe_exc(run.loop_crash)} raised by a callback escaped the event loop: the callback "
                                         f"was not running in the task that leaves the context")
        else:
            raise run.loop_crash  # not ours: harness error
        return V
    if not run.boundary_recorded:
        bad("teardown-no-boundary", "the block was never left (boundary not reached)")
        return V
    if stack:
        bad("teardown-missed", f"callbacks {stack} were registered but never invoked", missed=[cbs[i] for i in stack])
    if running is not None and not cancelled:
        bad("teardown-unfinished", f"callback {running} had not completed when the context was left")
    # ---- pass_exception
    eb = run.block_exc
    for cid, arg in run.received.items():
        cb = cbs[cid]
        if cb["route"] == "service":
            continue
        if cb["pass_exception"]:
            if arg == "<no-arg>":
                bad("teardown-passexc-arity", f"pass_exception callback {cid} was called without argument")
            elif arg is not eb:
                how = "in-handler" if prog["in_handler"] else prog["driver"]
                bad(f"teardown-passexc-wrong[{how}]",
                    f"pass_exception callback {cid} received {describe_exc(arg) if isinstance(arg, BaseException) else arg!r} "
                    f"but the block ended with {describe_exc(eb)}", driver=prog["driver"], in_handler=prog["in_handler"])
        elif arg != "<no-arg>":
            bad("teardown-passexc-arity", f"callback {cid} registered without pass_exception received an argument")
    # ---- grouping of raised exceptions / boundary outcome
    R = list(run.raised.values())
    Rp = [x for x in R if not is_cancellation(x)]
    b = run.boundary
    from vkit.trace import leaves as _leaves

    b_has_cancel = any(is_cancellation(x) for x in _leaves(b))
    if cancelled and not prog["nested"] and b_has_cancel:
        # Root context: between the teardown and the boundary lies anyio's task group exit, which under a
        # pending cancellation may legitimately replace whatever passes through it by a cancellation exception
        # (the cancellation is a later, separate event).  Nested contexts have nothing in between and are checked.
        pass
    elif eb is not None and is_cancellation(eb) and not Rp:
        # the block was ended by cancellation: backends may re-create the cancellation exception object;
        # what must hold is that the cancellation still propagates to the caller
        if b is None or not b_has_cancel:
            bad("teardown-outcome", f"block ended by cancellation but the caller observed {describe_exc(b)}")
    elif Rp:
        ok = False
        for g in groups(b):
            members = list(g.exceptions)
            if all(any(same_exc(m, x) for m in members) for x in Rp) and all(any(same_exc(m, x) for x in R) for m in members):
                ok = True
                break
        if not ok:
            bad("teardown-group", f"callbacks raised {[describe_exc(x) for x in Rp]} but the boundary exception {describe_exc(b)} "
                                  f"does not contain one group holding exactly the raised exceptions")
    elif not R:
        if eb is None:
            if b is not None:
                bad("teardown-outcome", f"clean block, no callback raised, but the caller observed {describe_exc(b)}")
        elif isinstance(eb, Exception) and not isinstance(eb, BaseExceptionGroup):
            if b is not eb:
                bad("teardown-outcome", f"block ended with {describe_exc(eb)} and no callback raised, but the caller observed "
                                        f"{describe_exc(b)} (not the same object)")
        elif not contains_same(b, eb):
            bad("teardown-outcome", f"block ended with {describe_exc(eb)} and no callback raised, but the caller observed {describe_exc(b)}")
    if run.closed_after is not True:
        bad("teardown-closed", f"context.closed is {run.closed_after} after the block was left")
    if not all(run.closed_inside):
        bad("teardown-closed", "context.closed was False inside a teardown callback")
    if not run.current_ok:
        bad("teardown-current", "current_context() inside a teardown callback was not the context being torn down")
    return V


def features(run: Run) -> dict[str, int]:
    prog = run.prog
    cbs = all_cbs(prog)
    c: dict[str, int] = {}

    def inc(k: str, n: int = 1) -> None:
        c[k] = c.get(k, 0) + n

    begins = run.trace.of("begin")
    inc("callbacks_invoked", len(begins))
    inc("programs")
    order = [e["actor"] for e in begins]
    raised_ids = set(run.raised)
    for i, cid in enumerate(order):
        exc = run.raised.get(cid)
        if exc is not None and not isinstance(exc, Exception) and not is_cancellation(exc) and i + 1 < len(order):
            inc("base_exception_then_later_callback_ran")
        if exc is not None and isinstance(exc, Exception) and i + 1 < len(order):
            inc("exception_then_later_callback_ran")
    if any(e.get("during_teardown") for e in run.trace.of("register")):
        inc("registered_during_teardown", sum(1 for e in run.trace.of("register") if e.get("during_teardown")))
    byid = {cb["id"]: cb for cb in cbs}
    for cid in order:
        cb = byid[cid]
        if cb["pass_exception"] and cb["route"] != "service":
            inc("pass_exception_checked")
            if run.block_exc is not None:
                inc("pass_exception_checked_with_exception")
        if cb["kind"] != "sync" and cb["steps"]:
            inc("async_callbacks_with_checkpoints")
    routes = {byid[cid]["route"] for cid in order}
    if len(routes) >= 3:
        inc("contexts_mixing_3plus_routes")
    for r in routes:
        inc(f"route_{r}")
    for cid in order:
        if byid[cid].get("form", "function") != "function" and byid[cid]["route"] in ("direct", "shortcut", "resource"):
            if byid[cid]["form"] == "misleading_signature":
                inc("callback_form_misleading_signature")
            else:
                inc(f"callback_form_{byid[cid]['form'].replace('unhashable_', '').replace('equal_', '').replace('opaque_', '').replace('falsy_', '')}")
                if byid[cid]["form"] == "falsy_object":
                    inc("callback_form_falsy_callable_object")
                if byid[cid]["form"] == "method_of_temporary":
                    inc("callback_form_bound_method_of_an_otherwise_unreferenced_object")
                if byid[cid]["form"] == "opaque_object":
                    inc("callback_form_object_whose_repr_raises")
                if byid[cid]["form"] == "equal_object":
                    inc("callback_form_equal_object")
            if byid[cid]["form"] == "unhashable_object":
                inc("callback_form_unhashable_object")
    if any(byid[cid]["route"] == "resource" and byid[cid].get("ntypes", 0) > 1 for cid in order):
        inc("resource_route_multi_type")
    if run.failed_service_starts:
        inc("callbacks_registered_while_a_service_task_of_the_context_failed_to_start", run.failed_service_starts)
    if run.sibling_in_teardown:
        inc("contexts_left_while_a_sibling_context_was_suspended_in_its_own_teardown")
    if run.from_component_registrations:
        inc("callbacks_registered_by_a_starting_component", run.from_component_registrations)
    if run.generator_based_awaitables:
        inc("callbacks_returning_a_generator_based_coroutine", run.generator_based_awaitables)
    if run.other_ctx_calls:
        inc("ctxteardown_called_with_another_context", run.other_ctx_calls)
    for shape, n in run.gen_shapes.items():
        inc(f"ctxteardown_generator_{shape}", n)
    if run.from_child_registrations:
        inc("callbacks_registered_on_the_owner_while_a_child_context_was_current", run.from_child_registrations)
    if run.setup_registrations:
        inc("callbacks_registered_by_a_ctxteardown_setup_part", run.setup_registrations)
    if len(raised_ids) >= 2:
        inc("programs_with_2plus_raising")
    if any(byid[cid]["raises"] == "RERAISE" and cid in run.raised for cid in order):
        inc("callback_reraised_block_exception")
    if prog.get("cancel"):
        inc("cancel_runs")
        if any(e.get("interrupted") for e in run.trace.of("end")):
            inc("cancel_interrupted_a_callback")
        creq = run.trace.of("cancel-request")
        if creq and begins and creq[0]["seq"] > begins[0]["seq"]:
            inc("cancel_delivered_during_teardown")
        if prog["cancel"].get("native"):
            inc("native_cancel_runs")
    inc(f"driver_{prog['driver']}")
    if prog["in_handler"]:
        inc("driven_inside_except_handler")
    inc(f"backend_{prog['backend']}")
    if prog["nested"]:
        inc("nested_context")
    else:
        inc("root_context")
    if len(order) >= 3:
        inc("programs_with_3plus_callbacks")
    return c
