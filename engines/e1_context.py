"""E1 - context-tree actors (DESIGN.md section 2; serves C02 C03 C04 C18, parts of C12/C13).

A tree of real contexts, each entered in its own task ("actor") that executes the commands a
sequential driver sends to it, so that ``current_context()`` inside a command is that context.
The reference model (models/ctxtree.py) is stepped in lock-step; after every command the harness
compares (1) the command's outcome, (2) the ResourceEvents dispatched during it (recorded at the
public ``Signal.dispatch`` boundary and, independently, received by a real listener attached to
every context), (3) the number of factory calls, and (4) the *whole visible set of every open
context* (``get_resources`` for every type of the pool) with the model.
"""
from __future__ import annotations

from typing import Any, Optional

import anyio
from anyio import create_memory_object_stream, create_task_group
from anyio.lowlevel import checkpoint

import vkit  # noqa: F401
from models.ctxtree import Model, valid_name
from vkit.trace import describe_exc
from vkit.vtime import VirtualDeadlock, run_virtual

# ------------------------------------------------------------------ type / value pool


class _MaybeFalsy:
    """about a third of the resource values are falsy objects (think of an empty registry or mapping)"""

    truth = True
    fid: Any = None  # set on instances that a factory produced (see make_factory)

    def __bool__(self) -> bool:
        return self.truth


class T0(_MaybeFalsy):
    pass


class T1(_MaybeFalsy):
    pass


class T1sub(T1):
    pass


class T2(_MaybeFalsy):
    pass


class T3(_MaybeFalsy):
    pass


class T4(_MaybeFalsy):
    pass


class Pool:
    """The type pool.  Entries 0-5 are plain classes; entries 6-7 are parametrized generics (PEP 585 / PEP 604), for
    which *every access creates a fresh object* that is equal to, but not identical with, the previous one - as it is
    when user code writes ``list[int]`` in two places."""

    N_CLASSES = 6

    def __init__(self) -> None:
        self.classes: list[type] = [T0, T1, T1sub, T2, T3, T4]

    # which spelling of the generic list type a history uses: the PEP 585 one or its `typing` alias.  The two are different
    # objects that do not compare equal - different keys today - but one history never uses both (a tree that canonicalised them
    # consistently would break nothing the statements say)
    typing_flavour = False

    def __len__(self) -> int:
        return 10

    def __getitem__(self, i: int) -> Any:
        if i < 6:
            return self.classes[i]
        if i == 6:
            import typing

            return typing.List[T0] if self.typing_flavour else list[T0]  # type: ignore[valid-type]
        if i == 8:
            # an Annotated alias used as a type of its own (every access makes a fresh, equal object): given explicitly it is a
            # key different from the bare class it decorates
            from typing import Annotated

            return Annotated[T0, "unit: metres"]
        if i == 9:
            # a PEP 604 union object used as a type of its own (every access makes a fresh, equal object): given explicitly it is one
            # key, different from the keys of its members
            return T2 | T3
        return dict[str, T1]  # type: ignore[valid-type]

    def __iter__(self) -> Any:
        return (self[i] for i in range(len(self)))


POOL = Pool()
# (the last two are legal \w+ names that are different strings - OHM SIGN and GREEK CAPITAL OMEGA - although Unicode normalisation
# would fold the first into the second)
NAMES = ["default", "a", "b", "\u2126", "\u03a9"]
NAME_WEIGHTS = [4, 4, 4, 1, 1]
BAD_NAMES = ["", "a b", "a.b", "a:b"]


def tname(t: Any) -> str:
    return getattr(t, "__name__", None) if isinstance(t, type) else str(t).replace("engines.e1_context.", "")


def make_value(type_idx: int, tag: Any) -> Any:
    # values are always instances of the plain classes (a resource registered under a generic type is registered with
    # explicit `types`, its value can be anything)
    v = POOL[type_idx if type_idx < Pool.N_CLASSES else 0]()
    v.tag = tag
    v.truth = (tag[1] % 3 != 0) if isinstance(tag, tuple) and isinstance(tag[1], int) else True
    return v


def safe(obj: Any) -> str:
    try:
        return repr(obj)
    except Exception:  # noqa: BLE001
        return f"<{type(obj).__name__} object>"


class BlockEnded(Exception):
    pass


def _flat(e: BaseException) -> list[BaseException]:
    if isinstance(e, BaseExceptionGroup):
        return [y for x in e.exceptions for y in _flat(x)]
    return [e]


class FactoryFailed(Exception):
    pass


def is_product(obj: Any) -> bool:
    """products of factories: Product instances, or instances of exactly one of the pool's plain classes (a factory declared for
    a base class or an unrelated type may well build an object whose concrete class is another registered type)"""
    return getattr(obj, "fid", None) is not None


class Product:
    def __init__(self, fid: int, serial: int) -> None:
        self.fid, self.serial = fid, serial

    def __bool__(self) -> bool:
        return self.fid % 3 != 0

    def __repr__(self) -> str:
        return f"Product(f{self.fid}#{self.serial})"


# ------------------------------------------------------------------ dispatch recorder (public boundary)

_SINK: list[Any] | None = None


def install_dispatch_recorder() -> None:
    from asphalt.core import _event

    cur = _event.Signal.dispatch
    if getattr(cur, "__verif_recorder__", False):
        return

    def dispatch(self: Any, event: Any) -> Any:
        if _SINK is not None:
            ref = getattr(self, "_instance", None)
            _SINK.append((ref() if ref is not None else None, event))
        return cur(self, event)

    dispatch.__verif_recorder__ = True  # type: ignore[attr-defined]
    dispatch.__wrapped__ = cur  # type: ignore[attr-defined]
    _event.Signal.dispatch = dispatch  # type: ignore[method-assign]


# ------------------------------------------------------------------ engine


class Actor:
    def __init__(self, cid: int, ctx: Any, in_component: bool = False) -> None:
        self.cid, self.ctx = cid, ctx
        # the actor's command loop runs inside the start() of a component started in this context, so that
        # current_context() is a ComponentContext and the module-level shortcuts go through its delegating wrappers
        self.in_component = in_component
        self.leave_how = "clean"
        self.send, self.recv = create_memory_object_stream[Any](1)
        self.entered = anyio.Event()
        self.left = anyio.Event()
        self.received: list[Any] = []  # events seen by the real listener
        self.teardown_ran: list[Any] = []
        self.exit_exc: BaseException | None = None


NOT_CALLABLE: list[Any] = ["notcallable", True, 1, 0, False, 2.5, [], (1, 2), {"close": 1}, object()]


class Engine:
    def __init__(self, params: dict[str, Any], rng: Any) -> None:
        self.p = params
        self.rng = rng
        self.model = Model()
        self.actors: dict[int, Actor] = {}
        self.ctx_objs: dict[int, Any] = {}
        self.cid_of: dict[int, int] = {}  # id(ctx object) -> cid
        self.objs: dict[Any, Any] = {}  # tag -> object (pinned)
        self.tag_of: dict[int, Any] = {}  # id(object) -> tag
        self.factory_calls: dict[int, int] = {}
        self.kept_events: list[Any] = []
        self._ctx_class: Any = None
        self.factory_body_runs: dict[int, int] = {}
        self.factories: dict[int, Any] = {}
        self.next_id = 0
        self.violations: list[dict[str, Any]] = []
        self.history: list[str] = []
        self.counters: dict[str, int] = {}
        self.states: set[Any] = set()
        self.nontrivial = False
        self.dispatches: list[Any] = []
        self.tg: Any = None
        self.active_cid: int | None = None
        self.async_yields = 0
        self.fail_next: dict[int, int] = {}
        self.last_fail: Any = None
        self.fatal = False

    # ---- helpers

    def inc(self, k: str, n: int = 1) -> None:
        self.counters[k] = self.counters.get(k, 0) + n

    def bad(self, key: str, msg: str, **w: Any) -> None:
        # a wrong *announcement* does not make the model diverge from the context: the history goes on (so that a check that does
        # not own announcements keeps its reach behind it); anything else ends the history
        if not key.startswith("announce-"):
            self.fatal = True
        n_same = sum(1 for v in self.violations if v["key"] == key)
        if len(self.violations) < 8 and n_same < 2:
            self.violations.append({"key": key, "msg": msg, "witness": {**w, "history_tail": self.history[-25:]}})

    def fresh(self) -> int:
        self.next_id += 1
        return self.next_id

    def open_ctxs(self) -> list[int]:
        return [c for c, m in self.model.ctxs.items() if m.state == "open"]

    def pin(self, tag: Any, obj: Any) -> None:
        self.objs[tag] = obj
        self.tag_of[id(obj)] = tag

    def tagname(self, obj: Any) -> Any:
        if obj is None:
            return None
        return self.tag_of.get(id(obj), f"<unknown object {obj!r}>")

    # ---- factories

    def make_factory(self, fid: int, is_async: bool, annotate: Any, async_kind: str = "def", partial: bool = False,
                     pclass: int | None = None) -> Any:
        """sync factories count their calls; async factories are plain coroutine functions that count when
        their body starts to run (so a coroutine that is created and closed by the sync API counts 0)"""
        eng = self

        def produce() -> Any:
            if pclass is None:
                return Product(fid, eng.factory_calls[fid])
            v = POOL[pclass]()
            v.fid, v.serial, v.truth = fid, eng.factory_calls[fid], fid % 3 != 0
            return v

        if is_async:

            async def afactory():  # type: ignore[no-untyped-def]
                eng.factory_calls[fid] = eng.factory_calls.get(fid, 0) + 1
                for _ in range(eng.async_yields):
                    await checkpoint()
                if eng.fail_next.get(fid, 0) > 0:
                    eng.fail_next[fid] -= 1
                    raise FactoryFailed(f"factory {fid} failed")
                return produce()

            factory: Any = afactory
            if async_kind == "lambda":  # a sync callable that returns a coroutine is an asynchronous factory too
                factory = lambda: afactory()  # noqa: E731
            elif async_kind == "object":
                # a configured factory *object*; every other one is unhashable (a plain @dataclass with __call__ is)
                extra = {"__eq__": lambda s, o: s is o, "__hash__": None} if fid % 2 else {}

                async def acall(self: Any) -> Any:
                    return await afactory()

                factory = type("AsyncCallable", (), {"__call__": acall, **extra})()
        else:

            def sfactory():  # type: ignore[no-untyped-def]
                eng.factory_calls[fid] = eng.factory_calls.get(fid, 0) + 1
                if eng.fail_next.get(fid, 0) > 0:
                    eng.fail_next[fid] -= 1
                    raise FactoryFailed(f"factory {fid} failed")
                return produce()

            factory = sfactory
            if async_kind == "object" and annotate is None:
                # (the synchronous counterpart: a callable object, every other one unhashable)
                extra = {"__eq__": lambda s, o: s is o, "__hash__": None} if fid % 2 else {}
                factory = type("Maker", (), {"__call__": lambda self: sfactory(), **extra})()
        if annotate is not None:
            factory.__annotations__["return"] = annotate
        if partial:
            import functools

            factory = functools.partial(factory)
        return factory

    # ---- actor

    async def actor_main(self, a: Actor) -> None:
        from asphalt.core import Component, start_component

        async def loop_body() -> None:
            await self.actor_loop(a)

        try:
            with anyio.CancelScope() as leave_scope:
                async with a.ctx:
                    if a.in_component:
                        class ActorComponent(Component):
                            async def start(self_inner) -> None:  # noqa: N805
                                await loop_body()

                        if a.cid % 2:
                            # ... a component tree started from inside the start() of a component of another tree (an application
                            # embedding a plug-in's tree): the actor's calls are made two component contexts deep
                            class OuterComponent(Component):
                                async def start(self_inner) -> None:  # noqa: N805
                                    await start_component(ActorComponent, timeout=None)

                            self.inc("contexts_driven_from_a_component_tree_started_inside_a_component")
                            await start_component(OuterComponent, timeout=None)
                        else:
                            await start_component(ActorComponent, timeout=None)
                    else:
                        await loop_body()
                    # the block may also end with an exception of its own, or by a cancellation: the context is left all the same
                    if a.leave_how == "raise":
                        raise BlockEnded("the block ended with an exception")
                    if a.leave_how == "cancel":
                        leave_scope.cancel()
                        await checkpoint()
        except BlockEnded:
            pass
        except BaseException as e:
            if not (a.leave_how == "raise" and isinstance(e, BaseExceptionGroup) and all(isinstance(x, BlockEnded) for x in _flat(e))):
                a.exit_exc = e
        finally:
            a.entered.set()
            a.left.set()

    async def actor_loop(self, a: Actor) -> None:
        if True:
            if True:
                async with create_task_group() as ltg:
                    ready = anyio.Event()

                    async def listener() -> None:
                        async with a.ctx.resource_added.stream_events(max_queue_size=100000) as stream:
                            ready.set()
                            async for ev in stream:
                                a.received.append(ev)

                    clogged_ready = anyio.Event()

                    async def clogged_listener() -> None:
                        # subscribed *before* the real listener; holds one event and never reads: from the second publication
                        # on its queue is full, which is nobody else's problem
                        async with a.ctx.resource_added.stream_events(max_queue_size=1):
                            clogged_ready.set()
                            await anyio.sleep_forever()

                    if a.cid % 2 == 0:
                        ltg.start_soon(clogged_listener)
                        await clogged_ready.wait()
                    ltg.start_soon(listener)
                    await ready.wait()
                    a.entered.set()
                    async for fn, reply in a.recv:
                        if fn is None:
                            break
                        try:
                            res = ("ok", await fn())
                        except Exception as e:
                            res = ("exc", e)
                        reply.append(res)
                        reply_ev = reply[0]
                        reply_ev.set()
                    ltg.cancel_scope.cancel()

    async def call_in(self, cid: int, fn: Any) -> Any:
        """run ``await fn()`` inside the actor task of context cid; returns ("ok", v) | ("exc", e)"""
        a = self.actors[cid]
        ev = anyio.Event()
        reply: list[Any] = [ev]
        await a.send.send((fn, reply))
        await ev.wait()
        return reply[1]

    # ---- command execution + comparison ------------------------------------------------

    async def settle_listeners(self, expected_new: dict[int, int]) -> None:
        """let the real listeners consume; they must end up having received exactly what was dispatched"""
        for _ in range(60):
            if all(len(self.actors[c].received) >= n for c, n in expected_new.items() if c in self.actors):
                break
            await checkpoint()

    def check_outcome(self, what: str, expected: Any, observed: Any, cmd: Any) -> bool:
        kind, val = expected
        okind, oval = observed
        if kind == "exc" and what.startswith("add") and val & {"ValueError", "TypeError"}:
            # the statement names ResourceConflict for conflicts only; for invalid input it says "raises for any reason":
            # either of the two validation exception classes is accepted (e.g. get_type_hints() of a callable object
            # without type information raises TypeError, not ValueError)
            val = set(val) | {"ValueError", "TypeError"}
        if kind == "exc":
            if okind != "exc":
                self.bad(f"{what}-should-fail", f"{cmd}: expected one of {sorted(val)} but the call returned {self.tagname(oval) if oval is not None else None}")
                return False
            if type(oval).__name__ not in val:
                self.bad(f"{what}-wrong-exception", f"{cmd}: expected one of {sorted(val)} but got {describe_exc(oval)}")
                return False
            return True
        if okind == "exc":
            self.bad(f"{what}-unexpected-exception", f"{cmd}: expected success but got {describe_exc(oval)}")
            return False
        return True

    def compare_events(self, cmd: Any, expected: list[Any], before: dict[int, int]) -> None:
        """dispatch log of this command vs. model expectation; then listener vs. dispatch log"""
        from asphalt.core import ResourceEvent

        got = [(src, ev) for src, ev in self.dispatches if isinstance(ev, ResourceEvent)]
        self.dispatches.clear()
        self.inc("events_expected", len(expected))
        exp = list(expected)
        for src, ev in got:
            cid = self.cid_of.get(id(src))
            match = None
            for e in exp:
                ecid, type_alts, name, desc, is_factory = e
                if ecid == cid and any(tuple(POOL[t] for t in alt) == tuple(ev.resource_types) for alt in type_alts) \
                        and ev.resource_name == name and ev.resource_description == desc and bool(ev.is_factory) == is_factory:
                    match = e
                    break
            if match is None:
                where = f"context {cid}" if cid is not None else f"an object that is not a test context ({src!r})"
                self.bad("failed-call-dispatched-event" if self.last_fail else "announce-unexpected", f"{cmd}: unexpected ResourceEvent on {where}: types={[getattr(t, '__name__', t) for t in ev.resource_types]} "
                                                f"name={ev.resource_name!r} desc={ev.resource_description!r} is_factory={ev.is_factory}; expected {self.fmt_events(expected)}")
            else:
                exp.remove(match)
                self.kept_events.append((cid, ev, (tuple(ev.resource_types), ev.resource_name, ev.resource_description, ev.is_factory, ev.time)))
                if ev.source is not src or ev.topic != "resource_added":
                    self.bad("announce-fields", f"{cmd}: event source/topic wrong: source is context {self.cid_of.get(id(ev.source))}, topic {ev.topic!r}")
        for e in exp:
            self.bad("announce-missing", f"{cmd}: expected exactly one ResourceEvent {self.fmt_events([e])} but none was dispatched")

    @property
    def Ctx(self) -> Any:  # noqa: N802
        """the class of the contexts of this history: Context, or (falsy_contexts) a subclass whose instances are falsy - an
        attribute-bag / container-like context that is empty - which are contexts like any other"""
        if self._ctx_class is None:
            from asphalt.core import Context

            ns: dict[str, Any] = {}
            if self.p.get("falsy_contexts"):
                ns["__len__"] = lambda self: 0
            if self.p.get("equal_contexts"):
                # contexts with value semantics (think: compared by a request id): every context of the history compares and
                # hashes equal to every other - parents, children, siblings - and they are different contexts all the same
                ns["__eq__"] = lambda a, b: isinstance(b, Context)
                ns["__hash__"] = lambda a: 13
            self._ctx_class = type("UserContext", (Context,), ns) if ns else Context
        return self._ctx_class

    def raised_and_dispatched(self, observed: Any, cmd: Any) -> None:
        """a call that raises - whatever the model thinks it should have done - must not have announced anything"""
        from asphalt.core import ResourceEvent

        if observed[0] == "exc" and any(isinstance(ev, ResourceEvent) for _, ev in self.dispatches):
            self.bad("failed-call-dispatched-event", f"{cmd}: the call raised {describe_exc(observed[1])} although it had already dispatched a ResourceEvent")

    def check_kept_events(self) -> None:
        """what a listener received stays what it was: every dispatch delivers an event object of its own, and an event keeps
        its source and fields however many publications follow in this or other contexts"""
        seen: dict[int, int] = {}
        for cid, ev, snap in self.kept_events:
            if id(ev) in seen:
                self.bad("announce-event-reused", f"one ResourceEvent object was dispatched twice (on context {seen[id(ev)]} and on context {cid}): "
                                                  f"types={[getattr(t, '__name__', t) for t in snap[0]]} name={snap[1]!r}")
                return
            seen[id(ev)] = cid
            now = (tuple(ev.resource_types), ev.resource_name, ev.resource_description, ev.is_factory, ev.time)
            if ev.source is not self.ctx_objs.get(cid) or now != snap:
                self.bad("announce-fields", f"an event dispatched on context {cid} later reads source=context {self.cid_of.get(id(ev.source))}, fields {now}; "
                                            f"when it was dispatched: source=context {cid}, fields {snap}")
                return
        self.inc("kept_events_rechecked", len(self.kept_events))

    def fmt_events(self, evs: list[Any]) -> str:
        return str([{"ctx": c, "types": [[tname(POOL[t]) for t in alt] for alt in alts], "name": n, "desc": d, "is_factory": f} for c, alts, n, d, f in evs])

    def compare_visible(self, cmd: Any) -> None:
        # get_resources() has no lifecycle guard, so contexts that are constructed but not yet entered are
        # compared as well: this pins the snapshot to the moment of construction
        for cid in [c for c, mc in self.model.ctxs.items() if mc.state in ("open", "constructed")]:
            ctx = self.ctx_objs[cid]
            for ti, T in enumerate(POOL):
                try:
                    got = ctx.get_resources(T)
                except Exception as e:
                    self.bad("scope-get_resources-raised", f"after {cmd}: get_resources({tname(T)}) on context {cid} raised {describe_exc(e)}")
                    continue
                got_tags = {n: self.tagname(o) for n, o in got.items()}
                exp = self.model.visible(cid, ti)
                if got_tags != exp:
                    extra = {n: t for n, t in got_tags.items() if exp.get(n, "<absent>") != t}
                    missing = {n: t for n, t in exp.items() if n not in got_tags}
                    involves_gen = any(isinstance(t, tuple) and t and t[0] == "gen" for t in list(extra.values()) + list(missing.values()))
                    other_ctx = cmd.get("cid") != cid
                    kind = f"visible[{cmd['op']}{',gen' if involves_gen else ''}{',other-ctx' if other_ctx else ''}]"
                    if self.last_fail:
                        kind = f"failed-call-changed-state[{'+'.join(sorted(self.last_fail))}]"
                    self.bad(kind, f"after {cmd}: context {cid} (parent {self.model.ctxs[cid].parent}) sees for {tname(T)}: {got_tags}, "
                                   f"the model says {exp} (unexpected/different {extra}, missing {missing})", cmd=cmd)
                    return
        self.inc("visible_set_comparisons")

    async def step(self, cmd: dict[str, Any]) -> None:
        global _SINK
        self.history.append(str(cmd))
        self.dispatches.clear()
        _SINK = self.dispatches
        calls_before = dict(self.factory_calls)
        recv_before = {c: len(a.received) for c, a in self.actors.items()}
        op = cmd["op"]
        expected_events: list[Any] = []
        self.last_fail = None
        try:
            if op == "construct":
                await self.do_construct(cmd)
            elif op == "enter":
                await self.do_enter(cmd)
            elif op == "leave":
                expected_events = await self.do_leave(cmd) or []
            elif op == "add_resource":
                expected_events = await self.do_add_resource(cmd)
            elif op == "add_factory":
                expected_events = await self.do_add_factory(cmd)
            elif op == "lookup":
                expected_events = await self.do_lookup(cmd, calls_before)
            elif op == "race":
                expected_events = await self.do_race(cmd, calls_before)
            elif op == "race_add":
                expected_events = await self.do_race_add(cmd, calls_before)
            elif op == "sibling_seq":
                expected_events = await self.do_sibling_seq(cmd)
            else:
                raise ValueError(op)
        finally:
            _SINK = None
        if op not in ("race",):
            # exactly-once / right-context check of what this command dispatched
            self.compare_events(cmd, expected_events, recv_before)
        # listeners: every open context's real listener must have received exactly the dispatched events
        want = dict(recv_before)
        for e in expected_events:
            if e[0] in want:
                want[e[0]] += 1
        await self.settle_listeners(want)
        for c, a in self.actors.items():
            if self.model.ctxs[c].state != "open":
                continue
            if len(a.received) != want.get(c, len(a.received)) and not self.fatal:
                self.bad("announce-listener", f"{cmd}: the listener attached to context {c} received {len(a.received) - recv_before.get(c, 0)} "
                                              f"event(s) during this command, expected {want[c] - recv_before.get(c, 0)}")
        self.compare_visible(cmd)
        self.states.add(hash(self.model.state_hash()))

    # ---- individual commands

    async def do_construct(self, cmd: dict[str, Any]) -> None:
        from asphalt.core import Context

        cid, parent, how = cmd["cid"], cmd["parent"], cmd["how"]
        if parent is None:
            if self.p.get("equal_roots"):
                # root contexts of a subclass with value semantics: all of them compare and hash equal
                # (think of contexts compared by a request id); they are still different contexts
                if not hasattr(self, "_EqRoot"):
                    self._EqRoot = type("EqRoot", (self.Ctx,), {"__eq__": lambda a, b: type(a) is type(b), "__hash__": lambda a: 11})
                ctx = self._EqRoot()
                self.inc("value_equal_root_contexts")
            else:
                ctx = self.Ctx()
        elif how == "explicit":
            ctx = self.Ctx(self.ctx_objs[parent])
        else:  # implicit: constructed inside the parent's task, where it is the current context
            async def make() -> Any:
                if how == "explicit_current":
                    # what current_context() returns is passed explicitly (inside a component that is the component's context)
                    from asphalt.core import current_context

                    return self.Ctx(current_context())
                return self.Ctx()

            kind, ctx = await self.call_in(parent, make)
            if kind != "ok":
                raise ctx
        self.ctx_objs[cid] = ctx
        self.cid_of[id(ctx)] = cid
        self.model.construct(cid, parent)
        exp_parent = self.ctx_objs[parent] if parent is not None else None
        if ctx.parent is not exp_parent:
            self.bad("current-parent", f"{cmd}: Context.parent is context {self.cid_of.get(id(ctx.parent))}, expected {parent}")
        self.inc("contexts_constructed")

    async def do_enter(self, cmd: dict[str, Any]) -> None:
        cid = cmd["cid"]
        a = Actor(cid, self.ctx_objs[cid], in_component=bool(cmd.get("in_component")))
        self.actors[cid] = a
        if a.in_component:
            self.inc("contexts_driven_through_component_context")
        self.tg.start_soon(self.actor_main, a)
        await a.entered.wait()
        if a.left.is_set():
            self.bad("lifecycle-enter-failed", f"{cmd}: entering the context failed with {describe_exc(a.exit_exc)}")
            return
        mc = self.model.ctxs[cid]
        mc.state = "open"
        if mc.parent is not None:
            self.model.ctxs[mc.parent].open_children.add(cid)
        if cmd.get("late"):
            self.inc("entered_after_parent_changed")

    async def do_leave(self, cmd: dict[str, Any]) -> Any:
        cid = cmd["cid"]
        a = self.actors[cid]
        mc = self.model.ctxs[cid]
        ctx = self.ctx_objs[cid]
        # the last callback registered runs first: while the context is being torn down every pair still resolves to the object
        # it resolved to before (lookups are allowed until the teardown is over)
        during_teardown: dict[Any, Any] = {}

        late_tag = ("val", self.fresh())
        late_value = make_value(0, late_tag)
        self.pin(late_tag, late_value)
        late: dict[str, Any] = {}
        first_made: dict[int, Any] = {}
        child_view: dict[Any, Any] = {}
        child_expected = {ti: {n: t for n, t in self.model.visible(cid, ti).items() if not (isinstance(t, tuple) and t and t[0] == "gen")}
                          for ti in range(len(POOL))}

        def lookups_during_teardown() -> None:
            from asphalt.core import get_resource_nowait as lookup_shortcut

            for (t, name), res in list(mc.resources.items()):
                try:
                    during_teardown[(t, name)] = ("ok", (lookup_shortcut if (cid + t) % 2 else ctx.get_resource_nowait)(POOL[t], name, optional=True))
                except Exception as e:  # noqa: BLE001
                    during_teardown[(t, name)] = ("exc", e)
            # a first lookup of a factory-made resource may just as well happen now (a callback that flushes through a lazily made
            # client): the factory is called once, and the second lookup gets the very object the first one got
            for (t, name), mf in list(mc.factories.items()):
                if mf.is_async or any((tt, name) in mc.resources for tt in mf.types) or mf.fid in first_made:
                    continue
                before = self.factory_calls.get(mf.fid, 0)
                try:
                    one = ctx.get_resource_nowait(POOL[t], name)
                    two = ctx.get_resource_nowait(POOL[t], name)
                    first_made[mf.fid] = ("ok", one, two, self.factory_calls.get(mf.fid, 0) - before, t, name)
                except Exception as e:  # noqa: BLE001
                    first_made[mf.fid] = ("exc", e, None, 0, t, name)
                if len(first_made) >= 2:
                    break
            # a child context created now (by a teardown callback that needs a scope of its own) still starts from what is visible
            # in this context at this moment: every static resource, no generated one
            try:
                probe_child = self.Ctx()
                child_view["parent_ok"] = probe_child.parent is ctx
                for ti, T in enumerate(POOL):
                    child_view[ti] = {n: self.tagname(o) for n, o in probe_child.get_resources(T).items()}
            except Exception as e:  # noqa: BLE001
                child_view["exc"] = e
            # ... and a resource may still be added while the teardown is running: a successful add like any other (announced once)
            try:
                if cid % 2:
                    # (through the module-level shortcut: the context being torn down is the current one)
                    from asphalt.core import add_resource as add_shortcut

                    add_shortcut(late_value, f"late_{cid}", [POOL[0]])
                else:
                    ctx.add_resource(late_value, f"late_{cid}", [POOL[0]])
                late["outcome"] = "ok"
            except Exception as e:  # noqa: BLE001
                late["outcome"] = e

        ctx.add_teardown_callback(lookups_during_teardown)
        # a listener of this context's resource_added signal that subscribed while the context was open and keeps listening while
        # it is torn down (a registry mirroring what is published): what is published during the teardown reaches it as well
        heard: list[Any] = []
        subscribed, stop = anyio.Event(), anyio.Event()

        async def teardown_listener() -> None:
            async with ctx.resource_added.stream_events(max_queue_size=1000) as stream:
                subscribed.set()
                async with create_task_group() as ptg:
                    async def pump() -> None:
                        async for ev in stream:
                            heard.append(ev)

                    ptg.start_soon(pump)
                    await stop.wait()
                    ptg.cancel_scope.cancel()

        self.tg.start_soon(teardown_listener)
        await subscribed.wait()
        if not a.in_component:
            a.leave_how = cmd.get("how", "clean")
            self.inc(f"contexts_left_by_{a.leave_how}")
        await a.send.send((None, None))
        await a.left.wait()
        for _ in range(4):
            await checkpoint()
        stop.set()
        for (t, name), (kind, got) in during_teardown.items():
            tag = mc.resources[(t, name)].tag
            self.inc("lookups_during_teardown")
            if tag in self.objs and (kind != "ok" or got is not self.objs[tag]):
                what = describe_exc(got) if kind == "exc" else (self.tagname(got) if got is not None and id(got) in self.tag_of else repr(got))
                self.bad("singleton-different-object" if isinstance(tag, tuple) and tag[0] == "gen" else "scope-wrong-object",
                         f"{cmd}: while context {cid} was being torn down, ({tname(POOL[t])}, {name!r}) resolved to {what}; before that it resolved to {tag}")
                break
        made_events: list[Any] = []
        for fid, (kind, one, two, calls, t, name) in first_made.items():
            self.inc("first_generations_during_teardown")
            if kind == "ok":
                made_events.extend(self.model.lookup(cid, t, name, False, False)[1])  # (announced like any other generation)
            if kind == "exc":
                self.bad("lookup[factory]-raised", f"{cmd}: during the teardown of context {cid}, the first lookup of ({tname(POOL[t])}, {name!r}) - made by "
                                                   f"synchronous factory {fid} - raised {describe_exc(one)}")
            elif one is not two:
                self.bad("singleton-different-object", f"{cmd}: during the teardown of context {cid}, two successive lookups of ({tname(POOL[t])}, {name!r}) "
                                                       f"returned two different objects ({safe(one)}, {safe(two)}); the factory was called {calls} time(s)")
            elif calls != 1 or not is_product(one) or one.fid != fid:
                self.bad("factory-call-count", f"{cmd}: during the teardown of context {cid}, factory {fid} was called {calls} time(s) for two lookups of "
                                               f"({tname(POOL[t])}, {name!r}), which returned {safe(one)}")
        if "exc" in child_view:
            self.bad("scope-get_resources-raised", f"{cmd}: creating a child context (and reading get_resources() of it) from a teardown callback of context "
                                                   f"{cid} raised {describe_exc(child_view['exc'])}")
        elif child_view:
            self.inc("children_created_while_the_parent_was_being_torn_down")
            if not child_view.pop("parent_ok"):
                self.bad("current-parent", f"{cmd}: a context created in a teardown callback of context {cid} does not have that context as parent")
            for ti in range(len(POOL)):
                if child_view.get(ti) != child_expected[ti]:
                    self.bad("visible[construct-during-teardown]", f"{cmd}: a child created while context {cid} was being torn down sees for {tname(POOL[ti])}: "
                                                                   f"{child_view.get(ti)}; visible in the parent at that moment (static resources): {child_expected[ti]}")
                    break
        late_events: list[Any] = list(made_events)
        if late.get("outcome") == "ok":
            self.inc("resources_added_during_teardown")
            late_events.append((cid, [(0,)], f"late_{cid}", None, False))
        elif "outcome" in late:
            self.bad("add-unexpected-exception", f"{cmd}: add_resource() from a teardown callback of context {cid} raised {describe_exc(late['outcome'])}")
        self.inc("listeners_kept_through_a_teardown")
        if len(heard) != len(late_events) and not self.fatal:
            self.bad("announce-listener", f"{cmd}: a listener that subscribed to context {cid} while it was open and kept listening during its teardown "
                                          f"received {len(heard)} event(s); published during the teardown: {self.fmt_events(late_events)}")
        mc.state = "closed"
        if mc.parent is not None:
            self.model.ctxs[mc.parent].open_children.discard(cid)
        if a.exit_exc is not None:
            self.bad("lifecycle-leave-raised", f"{cmd}: leaving context {cid} raised {describe_exc(a.exit_exc)}")
        exp = list(reversed(mc.teardown))
        if a.teardown_ran != exp:
            self.bad("atomic-teardown-set", f"{cmd}: teardown callbacks run at exit: {a.teardown_ran}; registered successfully (reverse order): {exp}")
        self.inc("contexts_left")
        return late_events

    async def do_add_resource(self, cmd: dict[str, Any]) -> list[Any]:
        from asphalt.core import add_resource

        cid = cmd["cid"]
        ctx = self.ctx_objs[cid]
        a = self.actors[cid]
        tag = ("val", cmd["vid"])
        if cmd.get("reuse") and not cmd.get("none_value"):
            tag = tuple(cmd["reuse"])
            value = self.objs[tag]
            self.inc("adds_of_an_object_already_in_the_context")
        else:
            value = None if cmd.get("none_value") else make_value(cmd["vtype"], tag)
            if value is not None:
                self.pin(tag, value)
        types_arg: Any
        if cmd["types"] == "invalid":
            types_arg = [POOL[0], "not a type"]
        elif cmd["types"] and len(cmd["types"]) == 1 and cmd.get("types_single"):
            types_arg = POOL[cmd["types"][0]]
        else:
            types_arg = [POOL[t] for t in cmd["types"]]
        kwargs: dict[str, Any] = {"description": cmd["desc"]}
        td_tag = None
        if cmd["teardown"] == "probe":
            td_tag = ("td", cmd["vid"])

            def probe(tag: Any = td_tag) -> None:
                a.teardown_ran.append(tag)

            if cmd["vid"] % 5 == 0:
                # a decorated callback: functools.wraps makes introspection report the signature of the function it wraps (which
                # takes an argument), while the callable itself is perfectly callable without any
                import functools

                def wrapped_original(connection: Any) -> None:  # pragma: no cover - never called
                    raise AssertionError

                plain = probe

                @functools.wraps(wrapped_original)
                def probe(*args: Any, **kw: Any) -> None:  # noqa: F811
                    plain()

                self.inc("teardown_callbacks_with_a_misleading_signature")
            kwargs["teardown_callback"] = probe
        elif cmd["teardown"] == "notcallable":
            # every kind of non-callable a caller may pass by mistake (truthy, falsy, equal to True/False, containers)
            kwargs["teardown_callback"] = NOT_CALLABLE[cmd.get("teardown_value", 0) % len(NOT_CALLABLE)]
            td_tag = "notcallable"
            self.inc(f"add_with_non_callable_teardown_{type(kwargs['teardown_callback']).__name__}")

        async def call() -> None:
            # arguments by position or by keyword (a default name is sometimes simply left out)
            style = cmd["vid"] % 3
            if style == 0:
                args, kw = (value, cmd["name"], types_arg), dict(kwargs)
            elif style == 1:
                args, kw = (value,), {"name": cmd["name"], "types": types_arg, **kwargs}
            else:
                args, kw = (value, cmd["name"]), {"types": types_arg, **kwargs}
            if cmd["name"] == "default" and cmd["vid"] % 2 == 0:
                args = args[:1] + args[2:] if len(args) > 1 else args
                if len(args) == 2:  # (value, types): types must then go by keyword
                    kw["types"] = args[1]
                    args = args[:1]
                kw.pop("name", None)
            if cmd["via"] == "shortcut":
                add_resource(*args, **kw)
            else:
                ctx.add_resource(*args, **kw)

        observed = await self.call_in(cid, call)
        if isinstance(types_arg, list):
            types_arg.clear()  # the list the caller passed is the caller's: reusing it for something else changes nothing
            types_arg.append(object)
        self.raised_and_dispatched(observed, cmd)
        expected, events = self.model.add_resource(cid, tag, cmd["vtype"], cmd["name"], cmd["types"], cmd["desc"], td_tag,
                                                   value_is_none=bool(cmd.get("none_value")))
        self.check_outcome("add", expected, observed, cmd)
        if expected[0] == "exc":
            self.last_fail = expected[1]
            self.inc("failed_adds")
            self.inc("failed_add_" + "+".join(sorted(expected[1])))
            if len(cmd["types"]) > 1 and cmd["types"] != "invalid":
                self.inc("failed_multi_type_adds")
        else:
            self.inc("successful_adds")
            if len(cmd["types"]) > 1:
                self.inc("multi_type_adds")
        return events

    async def do_add_factory(self, cmd: dict[str, Any]) -> list[Any]:
        from asphalt.core import add_resource_factory

        cid = cmd["cid"]
        ctx = self.ctx_objs[cid]
        fid = cmd["fid"]
        types = cmd["types"]
        annotate = None
        kwargs: dict[str, Any] = {"description": cmd["desc"]}
        if types == "missing":
            pass
        elif types == "none_in_types":
            kwargs["types"] = [POOL[0], None]
        elif cmd.get("annotated"):
            ts = [POOL[t] for t in types]
            if cmd.get("annotated_meta"):
                # typing.Annotated metadata (a validator, a doc string) around the whole annotation or around one member of the
                # union says nothing about the resource's type: the factory is registered under the bare types
                from typing import Annotated

                ts = [Annotated[t, "metadata", i] if (i + fid) % 2 == 0 or len(ts) == 1 else t for i, t in enumerate(ts)]
                self.inc("factories_typed_by_an_Annotated_return_annotation")
            annotate = ts[0] if len(ts) == 1 else eval("Union[" + ",".join(f"ts[{i}]" for i in range(len(ts))) + "]", {"Union": __import__("typing").Union, "ts": ts})
        elif len(types) == 1 and cmd.get("types_single"):
            kwargs["types"] = POOL[types[0]]
        else:
            kwargs["types"] = [POOL[t] for t in types]
        factory = self.make_factory(fid, cmd["is_async"], annotate, cmd.get("async_kind", "def") if annotate is None else "def",
                                    partial=bool(cmd.get("partial")), pclass=cmd.get("pclass"))
        class_as_factory = types == "missing" and cmd.get("pclass") is not None and fid % 2 == 0
        if class_as_factory:
            # the callback is a class (calling it makes the resource) and no types are given: a class has no return annotation to
            # take the types from, so this registration must fail like that of any other un-annotated callable
            factory = POOL.classes[cmd["pclass"]]
            self.inc("factory_callbacks_that_are_classes_without_types")
        if cmd.get("pclass") is not None:
            self.inc("factories_building_an_instance_of_a_pool_class")
        if cmd.get("partial"):
            self.inc("partial_factories")
            if annotate is not None:
                types = "missing"  # typing.get_type_hints() cannot look through functools.partial: the call must fail
        if cmd["is_async"] and annotate is None:
            self.inc("async_factory_kind_" + cmd.get("async_kind", "def"))
        self.factories[fid] = factory

        async def call() -> None:
            name_kw = {"name": cmd["name"]} if fid % 2 else {}
            pos = () if fid % 2 else (cmd["name"],)
            if cmd["name"] == "default" and fid % 3 == 0:
                name_kw, pos = {}, ()  # the default name simply left out
            if cmd["via"] == "shortcut":
                add_resource_factory(factory, *pos, **name_kw, **kwargs)
            else:
                ctx.add_resource_factory(factory, *pos, **name_kw, **kwargs)

        observed = await self.call_in(cid, call)
        if isinstance(kwargs.get("types"), list):
            kwargs["types"].clear()  # the caller reuses its list afterwards
            kwargs["types"].append(object)
        self.raised_and_dispatched(observed, cmd)
        if class_as_factory and observed[0] == "ok":
            # (a tree that takes the class itself as the type of what it makes does nothing the statement forbids: only a call
            # that *raises* must leave no trace.  The model has no such feature, so this history simply ends here.)
            self.inc("class_factories_without_types_accepted")
            self.dispatches.clear()
            self.fatal = True
            return []
        expected, events = self.model.add_factory(cid, fid, cmd["name"], types, cmd["desc"], cmd["is_async"])
        self.check_outcome("add-factory", expected, observed, cmd)
        if expected[0] == "exc":
            self.last_fail = expected[1]
            self.inc("failed_factory_adds")
        else:
            self.inc("successful_factory_adds")
        return events

    def make_injected(self, T: type, name: str, optional: bool, is_async: bool) -> Any:
        from asphalt.core import inject, resource

        if is_async:
            async def f(*, r=resource(name)):  # type: ignore[no-untyped-def]
                return r
        else:
            def f(*, r=resource(name)):  # type: ignore[no-untyped-def]
                return r
        f.__annotations__["r"] = Optional[T] if optional else T
        return inject(f)

    async def one_lookup(self, cid: int, api: str, t: int, name: str, optional: bool) -> Any:
        from asphalt.core import get_resource, get_resource_nowait

        ctx = self.ctx_objs[cid]
        T = POOL[t]

        self.lookup_serial = getattr(self, "lookup_serial", 0) + 1
        # the name by position, by keyword, or (the default name) left out
        nargs: tuple[Any, ...] = (name,)
        nkw: dict[str, Any] = {}
        if self.lookup_serial % 3 == 1:
            nargs, nkw = (), {"name": name}
        elif name == "default" and self.lookup_serial % 3 == 2:
            nargs = ()

        if t in (8, 9) and api.startswith("inject"):
            # (as a parameter annotation the Annotated wrapper would be metadata - stripped - and not this key, and a union would be
            # a choice of types, not this key: looked up directly)
            api = "async" if api == "inject_async" else "nowait"

        async def call() -> Any:
            if api == "nowait":
                return ctx.get_resource_nowait(T, *nargs, optional=optional, **nkw) if optional else ctx.get_resource_nowait(T, *nargs, **nkw)
            if api == "async":
                return await ctx.get_resource(T, *nargs, optional=optional, **nkw) if optional else await ctx.get_resource(T, *nargs, **nkw)
            if api == "nowait_shortcut":
                return get_resource_nowait(T, *nargs, optional=optional, **nkw)
            if api == "async_shortcut":
                return await get_resource(T, *nargs, optional=optional, **nkw)
            if api == "inject_sync":
                return self.make_injected(T, name, optional, False)()
            if api == "inject_async":
                return await self.make_injected(T, name, optional, True)()
            raise ValueError(api)

        return await self.call_in(cid, call)

    async def do_lookup(self, cmd: dict[str, Any], calls_before: dict[int, int]) -> list[Any]:
        cid, api, t, name, optional = cmd["cid"], cmd["api"], cmd["type"], cmd["name"], cmd["optional"]
        mc = self.model.ctxs[cid]
        if self.actors[cid].in_component and api in ("async_shortcut", "inject_async") and not optional \
                and (t, name) not in mc.resources and (t, name) not in mc.factories:
            # inside a component a non-optional get_resource() of something missing *waits* for it (C06): ask the context itself
            api = "async"
        if api == "resources_shortcut":
            # the module-level get_resources(): what is present under that type right now (it never triggers a factory); inside
            # a component it goes through the component context's delegating wrapper
            from asphalt.core import get_resources as _get_resources

            async def call_list() -> Any:
                return dict(_get_resources(POOL[t]))

            observed = await self.call_in(cid, call_list)
            self.inc("lookup_via_resources_shortcut")
            exp = self.model.visible(cid, t)
            if observed[0] != "ok":
                self.bad("scope-get_resources-raised", f"{cmd}: get_resources() raised {describe_exc(observed[1])}")
            else:
                got_tags = {n: self.tagname(o) for n, o in observed[1].items()}
                if got_tags != exp:
                    self.bad("visible[get_resources-shortcut]", f"{cmd}: the get_resources() shortcut in context {cid} returns {got_tags}, the model says {exp}")
            return []
        sync_api = api in ("nowait", "nowait_shortcut", "inject_sync")
        self.async_yields = cmd.get("yields", 0)
        had = (t, name) in mc.resources
        fails = False
        mf = mc.factories.get((t, name))
        if cmd.get("fail_factory") and not had and mf is not None and not (mf.is_async and sync_api):
            # this lookup makes the factory run, and the factory raises
            fails = True
            self.fail_next[mf.fid] = 1
            self.inc("lookups_whose_factory_raises")
        observed = await self.one_lookup(cid, api, t, name, optional)
        if mf is not None:
            self.fail_next.pop(mf.fid, None)
        expected, events, generation = self.model.lookup(cid, t, name, optional, sync_api, factory_fails=fails)
        self.inc("lookups")
        self.inc(f"lookup_via_{api}")
        what = "lookup[factory]" if generation is not None else "lookup"
        if expected[0] == "exc":
            self.last_fail = expected[1]
        if self.check_outcome(what, expected, observed, cmd) and expected[0] == "ok":
            tag, obj = expected[1], observed[1]
            if tag is None:
                if obj is not None:
                    self.bad("lookup-should-be-none", f"{cmd}: expected None, got {self.tagname(obj)}")
            elif tag in self.objs:
                if obj is not self.objs[tag]:
                    key = "singleton-different-object" if tag[0] == "gen" else "scope-wrong-object"
                    self.bad(key, f"{cmd}: context {cid} returned {self.tagname(obj)} for ({tname(POOL[t])}, {name!r}); "
                                  f"the model (and earlier lookups) say {tag}")
                elif tag[0] == "gen":
                    self.inc("repeat_lookups_of_generated")
            else:  # first time this generated tag is seen: must be a fresh product of that factory
                if not is_product(obj) or obj.fid != tag[1] or id(obj) in self.tag_of:
                    key = "generated-not-fresh"
                    self.bad(key, f"{cmd}: context {cid} must generate its own product of factory {tag[1]} here, but got {self.tagname(obj) if id(obj) in self.tag_of else obj!r}")
                else:
                    self.pin(tag, obj)
                    self.inc("generations")
                    self.inc("generation_via_" + api)
                    if mc.parent is not None:
                        self.inc("generations_in_child_context")
        # factory call accounting
        for fid in set(self.factory_calls) | set(calls_before):
            delta = self.factory_calls.get(fid, 0) - calls_before.get(fid, 0)
            want = 1 if generation is not None and generation[0] == fid and generation[1] is not None else 0
            if delta != want:
                self.bad("factory-call-count", f"{cmd}: factory {fid} was called {delta} time(s) during this lookup, expected {want}")
        if generation is not None and generation[1] is None:
            self.inc("sync_lookup_on_async_factory")
            fid = generation[0]
        if had:
            self.inc("lookups_of_existing")
        return events

    async def do_race(self, cmd: dict[str, Any], calls_before: dict[int, int]) -> list[Any]:
        """several tasks look the same key up concurrently in one context (write-once register history)"""
        cid, t, name = cmd["cid"], cmd["type"], cmd["name"]
        ctx = self.ctx_objs[cid]
        T = POOL[t]
        self.async_yields = cmd["yields"]
        failing = bool(cmd.get("fail_first")) and self.async_yields > 0
        if failing:
            # the first generation fails while the other lookups wait for it: they must then share ONE new generation
            self.fail_next[cmd["fid"]] = cmd.get("fail_count", 1)
            self.inc("race_cases_with_failing_first_generation")
            if cmd.get("fail_count", 1) >= 10:
                self.inc("race_cases_with_10plus_generations_failing_in_a_row")
        results: list[Any] = []
        by_racer: dict[int, Any] = {}
        intervals: list[Any] = []
        clock = [0]

        async def racer(i: int, pre: int) -> None:
            for _ in range(pre):
                await checkpoint()
            clock[0] += 1
            start = clock[0]
            Ti = POOL[cmd["types"][i]] if "types" in cmd else T
            try:
                if cmd.get("apis") and cmd["apis"][i] == "nowait":
                    # (a synchronous factory: some of the racing lookups go through the synchronous API)
                    r = ("ok", ctx.get_resource_nowait(Ti, name))
                else:
                    r = ("ok", await ctx.get_resource(Ti, name))
            except Exception as e:
                r = ("exc", e)
            clock[0] += 1
            intervals.append((start, clock[0]))
            results.append(r)
            by_racer[i] = (cmd["types"][i] if "types" in cmd else t, r)

        intrusion: list[Any] = []

        async def intruder(pre: int) -> None:
            for _ in range(pre):
                await checkpoint()
            during = 0 < len(intervals) + len(results) or clock[0] > 0
            try:
                intrusion.append(("ok", ctx.get_resource_nowait(T, name), during and len(results) < len(cmd["pre"])))
            except Exception as e:
                intrusion.append(("exc", e, during and len(results) < len(cmd["pre"])))

        async def call() -> None:
            async with create_task_group() as tg:
                for i, pre in enumerate(cmd["pre"]):
                    tg.start_soon(racer, i, pre)
                if cmd.get("intruder_pre") is not None:
                    tg.start_soon(intruder, cmd["intruder_pre"])

        observed = await self.call_in(cid, call)
        mc = self.model.ctxs[cid]
        expected, events, generation = self.model.lookup(cid, t, name, False, False)
        overlapped = any(a[0] < b[1] and b[0] < a[1] for i, a in enumerate(intervals) for b in intervals[i + 1:])
        self.inc("race_cases")
        if overlapped:
            self.inc("race_cases_with_overlap")
            self.nontrivial = True
        witness = {"intervals": intervals, "results": [self.tagname(r[1]) if r[0] == "ok" and id(r[1]) in self.tag_of else repr(r[1]) for r in results]}
        if observed[0] == "exc":
            self.bad("race-raised", f"{cmd}: {describe_exc(observed[1])}")
            return events
        if expected[0] == "ok":
            objs = [r[1] for r in results if r[0] == "ok"]
            excs = [r[1] for r in results if r[0] == "exc"]
            failed = (cmd.get("fail_count", 1) - self.fail_next.get(cmd.get("fid"), 0)) if failing else 0
            bad_excs = [e for e in excs if not isinstance(e, FactoryFailed)]
            if bad_excs or len(excs) > failed:
                self.bad("race-lookup-raised", f"{cmd}: racing lookups raised {[describe_exc(e) for e in excs]} ({failed} generation(s) were made to fail)", **witness)
            distinct = {id(o) for o in objs}
            tag = expected[1]
            if len(distinct) > 1:
                # mechanism classifier for known_findings.json: overlapping get_resource calls on one (context, async factory)
                self.bad("race-async-factory-overlap", f"{cmd}: {len(objs)} concurrent get_resource calls on one context returned "
                                                       f"{len(distinct)} different objects", **witness, overlapped=overlapped)
            if tag not in self.objs and objs:
                first = objs[0]
                if is_product(first) and first.fid == tag[1] and id(first) not in self.tag_of:
                    self.pin(tag, first)
                    # pin the others too so that they print readably
                    for o in objs[1:]:
                        if id(o) not in self.tag_of:
                            self.tag_of[id(o)] = ("extra-product", o.fid, o.serial) if is_product(o) else repr(o)
                            self.objs[("pin", id(o))] = o
            if generation is not None and not failing:
                fid = generation[0]
                delta = self.factory_calls.get(fid, 0) - calls_before.get(fid, 0)
                if delta != 1:
                    self.bad("race-async-factory-overlap" if delta > 1 else "factory-call-count",
                             f"{cmd}: factory {fid} was called {delta} times for one context by {len(cmd['pre'])} concurrent lookups", **witness, overlapped=overlapped)
            # later lookup must return the pinned object
            later = await self.one_lookup(cid, "async", t, name, False)
            if failing:
                self.fail_next[cmd["fid"]] = 0
                fid = cmd["fid"]
                delta = self.factory_calls.get(fid, 0) - calls_before.get(fid, 0)
                if delta != 1 + failed:
                    self.bad("race-async-factory-overlap", f"{cmd}: the first generation failed; the factory was then called {delta - failed} more time(s) for this "
                                                           f"context by the {len(cmd['pre'])} concurrent lookups and the follow-up lookup (expected exactly 1)", **witness)
                if tag not in self.objs and later[0] == "ok" and is_product(later[1]) and id(later[1]) not in self.tag_of:
                    self.pin(tag, later[1])
            if later[0] != "ok" or (tag in self.objs and later[1] is not self.objs[tag]):
                self.bad("race-async-factory-overlap" if len(distinct) > 1 else "singleton-different-object",
                         f"{cmd}: a lookup after the race returned {self.tagname(later[1]) if later[0] == 'ok' else describe_exc(later[1])}, the first racer got {tag}", **witness)
            if intrusion:
                from asphalt.core import AsyncResourceError

                how, what, during = intrusion[0]
                self.inc("races_with_a_synchronous_lookup_of_the_same_pair")
                if during:
                    self.inc("races_with_a_synchronous_lookup_while_the_generation_was_in_flight")
                if how == "exc" and type(what) is not AsyncResourceError:
                    self.bad("race-lookup-raised", f"{cmd}: a get_resource_nowait() of the pair made beside the racing lookups raised {describe_exc(what)}", **witness)
                elif how == "ok" and (later[0] != "ok" or what is not later[1]):
                    self.bad("singleton-different-object", f"{cmd}: a get_resource_nowait() of the pair made beside the racing lookups returned {safe(what)}, "
                                                           f"a later lookup {self.tagname(later[1]) if later[0] == 'ok' else describe_exc(later[1])}", **witness)
            # whatever a racer was given for the pair it asked for is what that pair resolves to from then on
            for i, (ti, r) in sorted(by_racer.items()):
                if r[0] != "ok":
                    continue
                again = await self.one_lookup(cid, "async", ti, name, False)
                self.inc("racers_rechecked_against_a_later_lookup_of_their_own_pair")
                if again[0] != "ok" or again[1] is not r[1]:
                    self.bad("singleton-different-object",
                             f"{cmd}: racing lookup #{i} was given {self.tagname(r[1]) if id(r[1]) in self.tag_of else safe(r[1])} for ({tname(POOL[ti])}, {name!r}); "
                             f"a later lookup of that pair returns {(self.tagname(again[1]) if id(again[1]) in self.tag_of else safe(again[1])) if again[0] == 'ok' else describe_exc(again[1])}",
                             **witness)
                    break
            # events: exactly one generation event
            from asphalt.core import ResourceEvent

            n_ev = sum(1 for src, ev in self.dispatches if isinstance(ev, ResourceEvent))
            if n_ev != len(events):
                self.bad("announce-race-duplicate" if n_ev > 1 else "announce-missing",
                         f"{cmd}: {n_ev} ResourceEvents were dispatched for one generation by {len(cmd['pre'])} concurrent lookups", **witness)
            self.dispatches.clear()
        return events

    async def do_sibling_seq(self, cmd: dict[str, Any]) -> list[Any]:
        """inside the task of context `parent`: a short-lived child is entered, gets a resource of its own and is left again -
        cleanly or with a raising teardown callback / a raising block (the task catches that and goes on) - and then the next
        context is constructed with an implicit parent: it must be a child of `parent` and must see nothing of its dead sibling"""
        from asphalt.core import Context

        parent, tmp_cid, new_cid = cmd["parent"], cmd["tmp_cid"], cmd["cid"]
        tag = ("val", cmd["vid"])
        value = make_value(cmd["vtype"], tag)
        self.pin(tag, value)
        T = POOL[cmd["type"]]

        class Boom(Exception):
            pass

        tmp_parent = cmd.get("tmp_parent", parent)

        async def seq() -> Any:
            tmp = self.Ctx() if tmp_parent == parent else self.Ctx(self.ctx_objs[tmp_parent])
            self.ctx_objs[tmp_cid] = tmp
            self.cid_of[id(tmp)] = tmp_cid
            try:
                async with tmp:
                    tmp.add_resource(value, cmd["name"], [T])
                    if cmd["how"] == "teardown_raises":
                        def raiser() -> None:
                            raise Boom("teardown of the short-lived sibling failed")

                        tmp.add_teardown_callback(raiser)
                    elif cmd["how"] == "block_raises":
                        raise Boom("block of the short-lived sibling failed")
            except (Boom, BaseExceptionGroup):
                pass
            return self.Ctx()

        kind, new = await self.call_in(parent, seq)
        if kind != "ok":
            self.bad("lifecycle-sibling-seq", f"{cmd}: {describe_exc(new)}")
            return []
        self.model.construct(tmp_cid, tmp_parent)
        if tmp_parent != parent:
            self.inc("sibling_sequences_with_foreign_parent")
        _, events = self.model.add_resource(tmp_cid, tag, cmd["vtype"], cmd["name"], [cmd["type"]], None, None)
        self.model.ctxs[tmp_cid].state = "closed"
        self.ctx_objs[new_cid] = new
        self.cid_of[id(new)] = new_cid
        self.model.construct(new_cid, parent)
        if new.parent is not self.ctx_objs[parent]:
            self.bad("current-parent", f"{cmd}: the context created after its sibling was left (by {cmd['how']}) has parent context "
                                       f"{self.cid_of.get(id(new.parent))}, expected {parent}")
        self.inc("contexts_constructed", 2)
        self.inc(f"sibling_sequences_{cmd['how']}")
        return events

    def resync_model(self, cmd: dict[str, Any]) -> None:
        """after a generation that raced with an add on the same pair: adopt, for the factory's other types, whatever the context
        now reports (the statement leaves open whether the interrupted generation's product is kept for them)"""
        from models.ctxtree import MRes

        cid, name = cmd["cid"], cmd["name"]
        mc = self.model.ctxs[cid]
        ctx = self.ctx_objs[cid]
        for ti in range(len(POOL)):
            got = ctx.get_resources(POOL[ti])
            obj = got.get(name)
            key = (ti, name)
            if obj is None:
                mc.resources.pop(key, None)
            elif key not in mc.resources or self.objs.get(mc.resources[key].tag) is not obj:
                tag = self.tag_of.get(id(obj))
                if tag is None:
                    tag = ("adopted", cmd["vid"], ti)
                    self.pin(tag, obj)
                mc.resources[key] = MRes(tag, (ti,), name, None, generated=is_product(obj))

    async def do_race_add(self, cmd: dict[str, Any], calls_before: dict[int, int]) -> list[Any]:
        """one task triggers an async multi-type factory, another adds a static resource under one of the factory's
        other (still free) types while the factory is suspended; both are then looked up again"""
        cid, t1, t2, name = cmd["cid"], cmd["type"], cmd["other_type"], cmd["name"]
        ctx = self.ctx_objs[cid]
        self.async_yields = cmd["yields"]
        state: dict[str, Any] = {"lookup_done": False}
        tag = ("val", cmd["vid"])
        value = make_value(t2, tag)
        self.pin(tag, value)

        async def looker() -> None:
            try:
                state["lookup"] = ("ok", await ctx.get_resource(POOL[t1], name))
            except Exception as e:
                state["lookup"] = ("exc", e)
            state["lookup_done"] = True

        async def adder() -> None:
            for _ in range(cmd["pre"]):
                await checkpoint()
            state["add_before_lookup_done"] = not state["lookup_done"]
            try:
                ctx.add_resource(value, name, [POOL[t2]])
                state["add"] = ("ok", None)
            except Exception as e:
                state["add"] = ("exc", e)

        async def call() -> None:
            async with create_task_group() as tg:
                tg.start_soon(looker)
                tg.start_soon(adder)

        observed = await self.call_in(cid, call)
        if observed[0] == "exc":
            self.bad("race-raised", f"{cmd}: {describe_exc(observed[1])}")
            return []
        events: list[Any] = []
        self.inc("race_add_cases")
        if state["add_before_lookup_done"]:
            self.inc("race_add_during_generation")
            if t1 == t2:
                self.inc("race_add_on_the_pair_being_generated")
            self.nontrivial = True
            mf = self.model.ctxs[cid].factories.get((t1, name))
            exp_add, ev1 = self.model.add_resource(cid, tag, t2, name, [t2], None, None)
            exp_look, ev2, generation = self.model.lookup(cid, t1, name, False, False)
            if t1 == t2 and exp_add[0] == "ok" and mf is not None:
                free = tuple(tt for tt in mf.types if (tt, mf.name) not in self.model.ctxs[cid].resources)
                ev2 = [(cid, [tuple(mf.types), free], mf.name, mf.desc, False)]
                # the pair now belongs to the added resource: whatever the interrupted generation produced, this lookup and
                # every later one must agree on ONE object; the statement does not say which of the two wins for the
                # in-flight call, so only agreement is demanded (checked below)
                ev2_full, ev2 = ev2, []
                generation = None
        else:
            exp_look, ev2, generation = self.model.lookup(cid, t1, name, False, False)
            exp_add, ev1 = self.model.add_resource(cid, tag, t2, name, [t2], None, None)
        events = ev1 + ev2
        self.check_outcome("add", exp_add, state["add"], cmd)
        same_pair = t1 == t2 and state["add_before_lookup_done"] and exp_add[0] == "ok"
        if same_pair:
            # agreement: the object handed to the in-flight lookup must be what the pair resolves to from now on
            later = await self.one_lookup(cid, "nowait", t1, name, True)
            got = state["lookup"]
            if got[0] != "ok" or later[0] != "ok" or got[1] is not later[1]:
                self.bad("singleton-different-object", f"{cmd}: the lookup that was generating ({POOL[t1].__name__ if t1 < 6 else t1}, {name!r}) while add_resource() took "
                                                       f"that pair returned {self.tagname(got[1]) if got[0] == 'ok' and id(got[1]) in self.tag_of else got[1]!r}, "
                                                       f"but the pair now resolves to {self.tagname(later[1]) if later[0] == 'ok' else later[1]!r}")
            # events: the add is announced exactly once; the interrupted generation is announced iff its product was kept
            # under some other type of the factory (the statement leaves that choice open) - decided from what the context holds
            known = set(self.tag_of)
            self.resync_model(cmd)
            kept = any(id(o) not in known for o in (self.objs[r.tag] for r in self.model.ctxs[cid].resources.values() if r.tag in self.objs))
            return ev1 + (ev2_full if kept else [])
        if self.check_outcome("lookup[factory]", exp_look, state["lookup"], cmd) and exp_look[0] == "ok":
            gtag, obj = exp_look[1], state["lookup"][1]
            if gtag not in self.objs and is_product(obj) and id(obj) not in self.tag_of:
                self.pin(gtag, obj)
        # afterwards both pairs must still resolve to what was handed out
        for t, want in ((t2, tag if exp_add[0] == "ok" else None), (t1, exp_look[1] if exp_look[0] == "ok" else None)):
            if want is None:
                continue
            later = await self.one_lookup(cid, "nowait", t, name, True)
            exp_later, _, _ = self.model.lookup(cid, t, name, True, True)
            if later[0] != "ok" or exp_later[0] != "ok" or (exp_later[1] in self.objs and later[1] is not self.objs[exp_later[1]]):
                self.bad("singleton-different-object", f"{cmd}: after a generation racing with add_resource, ({tname(POOL[t])}, {name!r}) resolves to "
                                                       f"{self.tagname(later[1]) if later[0] == 'ok' else describe_exc(later[1])}, expected {exp_later[1]}")
        return events

    # ---- generation of commands (model-driven, deterministic in rng) ---------------------------

    def gen_command(self) -> dict[str, Any] | None:
        rng, p, m = self.rng, self.p, self.model
        open_ = self.open_ctxs()
        constructed = [c for c, mc in m.ctxs.items() if mc.state == "constructed" and (mc.parent is None or m.ctxs[mc.parent].state == "open")]
        w = dict(p["weights"])
        if not open_:
            if constructed:
                return {"op": "enter", "cid": rng.choice(constructed), "in_component": rng.random() < 0.3}
            return {"op": "construct", "cid": self.fresh(), "parent": None, "how": "root"}
        if len(open_) + len(constructed) >= p["max_open"]:
            w["construct"] = 0
        if not constructed:
            w["enter"] = 0
        leaves = [c for c in open_ if not m.ctxs[c].open_children and not any(mc.parent == c and mc.state == "constructed" for mc in m.ctxs.values())]
        if not leaves or len(open_) <= 1:
            w["leave"] = 0
        ops = [k for k, v in w.items() if v > 0]
        op = rng.choices(ops, [w[k] for k in ops])[0]
        if op == "construct":
            roots = sum(1 for mc in m.ctxs.values() if mc.parent is None and mc.state != "closed")
            if roots < p["max_roots"] and rng.random() < (0.4 if p.get("equal_roots") else 0.08):
                return {"op": "construct", "cid": self.fresh(), "parent": None, "how": "root", "then_enter": True}
            deep = [c for c in open_ if self.depth(c) < p["max_depth"]]
            if not deep:
                return None
            parent = rng.choice(deep)
            if rng.random() < 0.2:
                free = [(t, n) for t in range(len(POOL)) for n in NAMES if (t, n) not in m.ctxs[parent].resources]
                if not free:
                    return None
                ft, fn = rng.choice(free)
                # the short-lived context is usually an implicit child of `parent`; sometimes it is given another open context
                # as explicit parent (entered and left inside `parent`'s task all the same)
                others = [c for c in open_ if c != parent and (ft, fn) not in m.ctxs[c].resources]
                tmp_parent = rng.choice(others) if others and rng.random() < 0.4 else parent
                return {"op": "sibling_seq", "parent": parent, "tmp_parent": tmp_parent, "tmp_cid": self.fresh(), "cid": self.fresh(), "vid": self.fresh(),
                        "vtype": rng.randrange(Pool.N_CLASSES), "type": ft, "name": fn,
                        "how": rng.choice(["clean", "teardown_raises", "block_raises"]), "then_enter": rng.random() < 0.7}
            return {"op": "construct", "cid": self.fresh(), "parent": parent, "how": rng.choice(["explicit", "implicit", "explicit_current"]),
                    "then_enter": rng.random() < 0.7}
        if op == "enter":
            return {"op": "enter", "cid": rng.choice(constructed), "late": True, "in_component": rng.random() < 0.3}
        if op == "leave":
            return {"op": "leave", "cid": rng.choice(leaves), "how": rng.choice(["clean", "clean", "raise", "cancel"])}
        cid = rng.choice(open_)
        mc = m.ctxs[cid]
        name = rng.choices(NAMES, NAME_WEIGHTS)[0] if rng.random() > p["p_bad_name"] else rng.choice(BAD_NAMES)
        if op == "add_resource":
            r = rng.random()
            ntypes = rng.choice([0, 1, 1, 2, 2, 3]) if rng.random() > 0.04 else len(POOL)  # (now and then under every type of the pool at once)
            types: Any = rng.sample(range(len(POOL)), ntypes)
            cmd = {"op": "add_resource", "cid": cid, "vid": self.fresh(), "vtype": rng.randrange(Pool.N_CLASSES), "name": name, "types": types,
                   "types_single": rng.random() < 0.5, "desc": rng.choice([None, "d1", "d2", ""]), "via": rng.choice(["method", "shortcut"]),
                   "teardown": rng.choice([None, "probe", "probe"])}
            own = [res.tag for res in mc.resources.values() if isinstance(res.tag, tuple) and res.tag[0] == "val" and res.tag in self.objs
                   and type(self.objs[res.tag]) in POOL.classes]
            if own and rng.random() < 0.12:
                # the very object that already sits in this context is added again (same or other name, overlapping or new types)
                tag = rng.choice(sorted(set(own)))
                cmd["reuse"] = list(tag)
                cmd["vtype"] = POOL.classes.index(type(self.objs[tag]))
            if r < p["p_invalid"]:
                which = rng.choice(["none_value", "invalid_types", "notcallable"])
                if which == "none_value":
                    cmd["none_value"] = True
                elif which == "invalid_types":
                    cmd["types"] = "invalid"
                else:
                    cmd["teardown"] = "notcallable"
                    cmd["teardown_value"] = rng.randrange(len(NOT_CALLABLE))
            return cmd
        if op == "add_factory":
            ntypes = rng.choice([1, 1, 2, 2, 3]) if rng.random() > 0.04 else len(POOL)
            types = rng.sample(range(len(POOL)), ntypes)
            cmd = {"op": "add_factory", "cid": cid, "fid": self.fresh(), "name": name, "types": types, "types_single": rng.random() < 0.5,
                   "annotated": rng.random() < 0.3, "annotated_meta": rng.random() < 0.3, "desc": rng.choice([None, "fd", ""]), "is_async": rng.random() < 0.5,
                   "async_kind": rng.choice(["def", "def", "lambda", "object"]), "partial": rng.random() < 0.15,
                   "via": rng.choice(["method", "shortcut"]),
                   # concrete class of what the factory builds: a class of its own, or exactly one of the pool's plain classes
                   "pclass": rng.randrange(Pool.N_CLASSES) if rng.random() < 0.35 else None}
            if rng.random() < p["p_invalid"]:
                cmd["types"] = rng.choice(["missing", "none_in_types"])
                cmd["annotated"] = False
            if isinstance(cmd["types"], list) and (8 in cmd["types"] or 9 in cmd["types"]):
                cmd["annotated"] = False  # (in a return annotation the Annotated wrapper is metadata and is stripped, a union is split: not this key)
            return cmd
        # lookups: bias towards keys that exist somewhere
        keys = list(mc.resources) + list(mc.factories) * 3
        if keys and rng.random() < 0.85:
            t, nm = rng.choice(keys)
            # sometimes ask under another type of the same factory
            if (t, nm) in mc.factories and rng.random() < 0.5:
                t = rng.choice(mc.factories[(t, nm)].types)
        else:
            t, nm = rng.randrange(len(POOL)), rng.choices(NAMES, NAME_WEIGHTS)[0]
        if op == "race":
            fk = [(tt, n) for (tt, n), f in mc.factories.items() if (tt, n) not in mc.resources]
            if not fk:
                return None
            t, nm = rng.choice(fk)
            f = mc.factories[(t, nm)]
            others = [tt for tt in f.types if tt != t and (tt, nm) not in mc.resources]
            if rng.random() < 0.4:
                # the concurrent add_resource targets another type of the factory - or the very pair being generated
                return {"op": "race_add", "cid": cid, "type": t, "other_type": rng.choice(others + [t]), "name": nm, "vid": self.fresh(),
                        "pre": rng.randint(0, 4), "yields": rng.randint(1, 3)}
            pre = [rng.randint(0, 3) for _ in range(rng.randint(2, 5))]
            free = [tt for tt in f.types if (tt, nm) not in mc.resources]
            if f.is_async and rng.random() < 0.06:
                # a crowd: 12-16 lookups racing for one product, and the first ten or eleven generations all fail
                pre = [rng.randint(0, 3) for _ in range(rng.randint(12, 16))]
                return {"op": "race", "cid": cid, "type": t, "name": nm, "pre": pre, "apis": ["async" for _ in pre], "types": [t] + [rng.choice(free) for _ in pre[1:]],
                        "yields": rng.randint(1, 3), "factory_async": True, "fid": f.fid, "fail_first": True, "fail_count": rng.choice([10, 11]), "intruder_pre": None}
            return {"op": "race", "cid": cid, "type": t, "name": nm, "pre": pre,
                    "apis": [rng.choice(["async", "async", "nowait"]) if not f.is_async else "async" for _ in pre],
                    "types": [t] + [rng.choice(free) for _ in pre[1:]],
                    "yields": rng.randint(0, 3), "factory_async": f.is_async, "fid": f.fid,
                    "fail_first": f.is_async and rng.random() < 0.3,
                    # while the asynchronous generation is in flight, some other code asks for the same pair through the synchronous
                    # API: that call fails (AsyncResourceError) or, if the generation is over, returns its product; nothing else changes
                    "intruder_pre": rng.randint(0, 6) if f.is_async and rng.random() < 0.5 else None}
        return {"op": "lookup", "cid": cid, "api": rng.choices(p["apis"], p.get("api_weights"))[0], "type": t, "name": nm,
                "optional": rng.random() < 0.4, "yields": rng.randint(0, 2), "fail_factory": rng.random() < 0.08}

    def depth(self, cid: int) -> int:
        d = 0
        while self.model.ctxs[cid].parent is not None:
            cid = self.model.ctxs[cid].parent  # type: ignore[assignment]
            d += 1
        return d

    # ---- main

    async def main(self) -> None:
        install_dispatch_recorder()
        async with create_task_group() as tg:
            self.tg = tg
            try:
                n = 0
                while n < self.p["commands"] and not self.fatal:
                    cmd = self.gen_command()
                    if cmd is None:
                        continue
                    n += 1
                    await self.step(cmd)
                    if cmd["op"] in ("construct", "sibling_seq") and cmd.get("then_enter") and not self.fatal:
                        await self.step({"op": "enter", "cid": cmd["cid"], "in_component": self.rng.random() < 0.3})
                if not self.fatal:
                    self.check_kept_events()
                # leave everything, leaves first
                while not self.fatal:
                    open_ = self.open_ctxs()
                    if not open_:
                        break
                    leaves = [c for c in open_ if not self.model.ctxs[c].open_children]
                    await self.step({"op": "leave", "cid": leaves[-1]})
            finally:
                tg.cancel_scope.cancel()
        # tree shape signature
        if len(self.model.ctxs) >= 3:
            self.nontrivial = True


def run_history(params: dict[str, Any], rng: Any) -> Engine:
    Pool.typing_flavour = bool(params.get("typing_flavour"))
    eng = Engine(params, rng)
    if Pool.typing_flavour:
        eng.inc("histories_using_the_typing_alias_of_the_generic_list_type")
    try:
        run_virtual(params["backend"], eng.main, sched_seed=params["sched_seed"], shuffle=params["shuffle"])
    except VirtualDeadlock as e:
        eng.bad("history-deadlock", f"the history never finished: {e}")
    return eng


DEFAULT_WEIGHTS = {"construct": 10, "enter": 6, "leave": 4, "add_resource": 22, "add_factory": 14, "lookup": 40, "race": 0}
ALL_APIS = ["nowait", "async", "nowait_shortcut", "async_shortcut", "inject_sync", "inject_async", "resources_shortcut"]


def default_params(rng: Any, **over: Any) -> dict[str, Any]:
    p = {
        "backend": rng.choice(["asyncio", "trio"]),
        "sched_seed": rng.randrange(1 << 30),
        "shuffle": rng.random() < 0.5,
        "commands": rng.randint(60, 150),
        "max_open": 12,
        "max_depth": 5,
        "max_roots": 2,
        "p_bad_name": 0.03,
        "p_invalid": 0.05,
        "weights": dict(DEFAULT_WEIGHTS),
        "apis": list(ALL_APIS),
        "equal_roots": rng.random() < 0.3,
        "falsy_contexts": rng.random() < 0.2,
        "typing_flavour": rng.random() < 0.4,
        "equal_contexts": rng.random() < 0.15,
    }
    p.update(over)
    return p
