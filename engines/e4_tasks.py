"""E4 - task programs (DESIGN.md section 2; serves C08 and C09, inheritance part of C12).

C08 programs: an owner context (root or nested) whose block interleaves resource registrations
(with teardown probes), plain teardown callbacks and start_service_task calls (all teardown
actions x task behaviours), then ends at a chosen virtual time.  The expected virtual time of every
teardown event is computed by folding the LIFO stack; the oracle compares the recorded trace with it.

C09 programs: a background task factory in an owner context, tasks spawned from several places,
a sequential driver that compares all_task_handles() with a model live-set at every step.
"""
from __future__ import annotations

from collections import Counter
from typing import Any

import anyio
from anyio import CancelScope, create_task_group
from anyio.lowlevel import checkpoint

import vkit  # noqa: F401
from vkit.trace import Trace, contains_same, describe_exc, is_cancellation, make_exc
from vkit.vtime import VirtualDeadlock, run_virtual


class ST0:
    pass


class ST1:
    pass


# =========================================================================== C08: service tasks

ACTIONS = ["cancel", "none", "sync_callable", "async_callable", "raising_callable", "raising_base_callable", "raising_async_callable", "raising_cancelled_callable"]


def gen_service_program(rng: Any, *, crash: bool = False) -> dict[str, Any]:
    steps: list[Any] = []
    n = rng.randint(2, 8)
    ids = [0]

    def fresh() -> int:
        ids[0] += 1
        return ids[0]

    n_services = 0
    for _ in range(n):
        r = rng.random()
        if r < 0.3:
            steps.append(["resource", fresh()])
        elif r < 0.4:
            steps.append(["teardown", fresh()])
        elif r < 0.8 and n_services < 4:
            n_services += 1
            action = rng.choice(ACTIONS)
            spec = {"action": action, "cleanup": rng.choice([0, 0, 0.5, 1, 2]) if rng.random() < 0.95 else rng.choice([61, 90.5, 700]), "action_delay": rng.choice([0, 0.5]) if action == "async_callable" else 0,
                    "action_starts_helper": action == "async_callable" and rng.random() < 0.4,
                    "ends_by_itself": None, "started_value": rng.random() < 0.5, "own_teardown": rng.random() < 0.4,
                    "spawn_via": rng.choice(["method", "shortcut"]),
                    # how a callable teardown action is given: plain function, functools.partial, or an object with __call__
                    "action_form": rng.choice(["function", "function", "partial", "object", "unhashable_object", "falsy_object", "builtin", "method_wrapper", "awaitable_object"]),
                    "func_form": rng.choice(["function", "function", "partial", "object", "unhashable_object", "lambda", "decorated"]),
                    "start_delay": 0, "from_child": rng.random() < 0.15}
            if spec["started_value"] and rng.random() < 0.4:
                spec["start_delay"] = 0.5  # the task takes a while before it reports itself started
            if action == "none" or rng.random() < 0.2:
                spec["ends_by_itself"] = rng.choice([0.625, 1.125, 3.125, 6.125])  # never ties with the 0.5-grid of the owner
            steps.append(["service", fresh(), spec])
        elif r < 0.86:
            steps.append(["sleep", rng.choice([0.5, 1, 2])])
        elif r < 0.92 and not crash:
            # a teardown callback that itself starts a service task while the context is being torn down
            steps.append(["teardown_starts_service", fresh(), {"action": rng.choice(["cancel", "sync_callable", "async_callable"]), "cleanup": rng.choice([0, 0.5, 1]),
                                                             "action_delay": 0, "ends_by_itself": None, "started_value": rng.random() < 0.5, "own_teardown": rng.random() < 0.4,
                                                             "spawn_via": "method", "action_form": "function", "start_delay": 0, "sid": fresh()}])
        else:
            steps.append(["yield", rng.randint(1, 3)])
    if n_services == 0:
        steps.append(["service", fresh(), {"action": rng.choice(ACTIONS[:4]), "cleanup": 1, "action_delay": 0, "ends_by_itself": 2.125 if rng.random() < 0.5 else None,
                                           "started_value": True, "own_teardown": True, "spawn_via": "method", "action_form": "function", "start_delay": 0}])
        if steps[-1][2]["action"] == "none":
            steps[-1][2]["ends_by_itself"] = 2.125
    steps.append(["sleep", rng.choice([0, 0.5, 1, 4])])
    party = []
    if not crash and rng.random() < 0.5:
        # a second task registering resources in the same context concurrently (on a .25 grid, the owner is on a .5 grid)
        for _ in range(rng.randint(1, 4)):
            party.append(["sleep", rng.choice([0.25, 0.25, 0.75])])
            party.append(["resource", fresh()])
    prog = {"backend": rng.choice(["asyncio", "trio"]), "sched_seed": rng.randrange(1 << 30), "shuffle": rng.random() < 0.5,
            "nested": rng.random() < 0.5, "steps": steps, "crash": None, "party": party, "in_component": rng.random() < 0.3,
            "block_raises": (not crash) and rng.random() < 0.2, "same_names": rng.random() < 0.3}
    if crash:
        svc = [s for s in steps if s[0] == "service"]
        victim = rng.choice(svc)
        prog["crash"] = {"sid": victim[1], "when": rng.choice(["running", "after_stop"]), "at": rng.choice([0.25, 0.75, 1.25]), "exc": rng.choice(["ValueError", "Custom", "Group", "Group1"])}
    return prog


def _decorated(func: Any) -> Any:
    """an ordinary `functools.wraps` decorator: ONE wrapper function (one code object) for every function it decorates, whatever
    their signatures - which are those of the functions they wrap"""
    import functools

    @functools.wraps(func)
    async def wrapper(*args: Any, **kwargs: Any) -> Any:
        return await func(*args, **kwargs)

    return wrapper


def wrap_form(func: Any, form: str, takes_task_status: bool) -> Any:
    """the coroutine function given as a plain function, a functools.partial or an object with an async __call__"""
    if form == "decorated":
        return _decorated(func)
    if form == "partial":
        import functools

        return functools.partial(func)
    if form == "lambda":
        # the documented way to pass arguments: a plain lambda that returns the coroutine
        if takes_task_status:
            return lambda *, task_status: func(task_status=task_status)
        return lambda: func()
    if form in ("object", "unhashable_object"):
        # "unhashable": a callable object with __eq__ but no __hash__ (what a plain @dataclass with __call__ is)
        extra: dict[str, Any] = {"__eq__": lambda s, o: s is o, "__hash__": None} if form == "unhashable_object" else {}
        if takes_task_status:
            async def call_status(self: Any, *, task_status: Any) -> None:
                await func(task_status=task_status)

            return type("StatusTask", (), {"__call__": call_status, **extra})()

        async def call_plain(self: Any) -> None:
            await func()

        return type("PlainTask", (), {"__call__": call_plain, **extra})()
    return func


class BlockFailed(Exception):
    """what the owner's block ends with in `block_raises` programs"""


class ServiceRun:
    def svc_name(self, sid: int) -> str:
        """the name is a label for humans: several service tasks of one context may carry the same one (two instances of one
        component class both starting "HTTP server")"""
        return "worker" if self.prog.get("same_names") else f"svc{sid}"

    def __init__(self, prog: dict[str, Any]) -> None:
        self.prog = prog
        self.from_child_starts = 0
        self.helpers_ran = 0
        self.trace = Trace()
        self.t0 = 0.0
        self.boundary: BaseException | None = None
        self.root_boundary: BaseException | None = None
        self.injected: BaseException | None = None
        self.crash: BaseException | None = None
        self.owner: Any = None
        self.start_values: dict[int, Any] = {}
        self.registered: list[int] = []
        self.problems: list[str] = []

    def t(self) -> float:
        return anyio.current_time() - self.t0

    def log(self, kind: str, actor: Any, **kw: Any) -> None:
        self.trace.log(kind, actor, vt=self.t(), **kw)

    def make_service(self, sid: int, spec: dict[str, Any], visible_before: list[int]) -> tuple[Any, Any]:
        from asphalt.core import add_teardown_callback, current_context, get_resources

        run = self
        stop = anyio.Event()
        crash = run.prog["crash"] if run.prog["crash"] and run.prog["crash"]["sid"] == sid else None

        async def body(task_status: Any = None) -> None:
            ctx = current_context()
            run.log("svc-start", sid, parent_is_owner=ctx.parent is run.owner, visible=sorted(get_resources(ST0)))
            if spec["own_teardown"]:
                async def own_teardown() -> None:
                    # takes a little (shielded) virtual time: teardown of the owner must wait for this too
                    with CancelScope(shield=True):
                        await anyio.sleep(0.25)
                    run.log("svc-own-teardown", sid)

                add_teardown_callback(own_teardown)
            if task_status is not None:
                if spec.get("start_delay"):
                    await anyio.sleep(spec["start_delay"])
                task_status.started(("started", sid))
            cancelled = False
            try:
                with CancelScope() as inner:
                    if crash and crash["when"] == "running":
                        await anyio.sleep(crash["at"])
                        run.injected = make_exc(crash["exc"], f"svc{sid}")
                        run.log("svc-crash", sid)
                        raise run.injected
                    if spec["ends_by_itself"] is not None:
                        with anyio.move_on_after(spec["ends_by_itself"]):
                            await stop.wait()
                    else:
                        await stop.wait()
            except BaseException as e:
                if not is_cancellation(e):
                    raise
                cancelled = True
                run.log("svc-cancelled", sid)
            try:
                # after a cancellation the clean-up is shielded (the task "needs time to clean up"); after a regular
                # stop it is not, so that a cancellation that must not happen becomes observable
                with CancelScope(shield=cancelled):
                    if not cancelled:
                        await checkpoint()
                    if spec["cleanup"]:
                        await anyio.sleep(spec["cleanup"])
            except BaseException as e:
                if is_cancellation(e):
                    run.log("svc-cancelled", sid, late=True)
                    run.log("svc-body-end", sid, cancelled=True, interrupted=True)
                raise
            if crash and crash["when"] == "after_stop":
                run.injected = make_exc(crash["exc"], f"svc{sid}")
                run.log("svc-crash", sid)
                raise run.injected
            run.log("svc-body-end", sid, cancelled=cancelled, visible=sorted(get_resources(ST0)))
            # if cancelled, a checkpoint here would raise again; the body simply returns

        if spec["started_value"]:
            async def func(*, task_status: Any) -> None:
                await body(task_status)
        else:
            async def func() -> None:  # type: ignore[misc]
                await body()

        func = wrap_form(func, spec.get("func_form", "function"), spec["started_value"])
        action = spec["action"]
        if action == "cancel":
            teardown_action: Any = "cancel"
        elif action == "none":
            teardown_action = None
        elif action == "sync_callable":
            def teardown_action() -> None:
                run.log("svc-action", sid)
                stop.set()
        elif action == "async_callable":
            async def teardown_action() -> None:  # type: ignore[misc]
                run.log("svc-action", sid)
                if spec["action_delay"]:
                    await anyio.sleep(spec["action_delay"])
                if spec.get("action_starts_helper") and run.owner is not None:
                    # stopping this service needs a short-lived helper service of the same context (one that drains a queue, say):
                    # starting a service task while the context is being torn down is allowed, also from here
                    async def helper() -> None:
                        run.helpers_ran += 1

                    await run.owner.start_service_task(helper, run.svc_name(sid) + "-drain")
                stop.set()
        elif action == "raising_callable":
            def teardown_action() -> None:
                run.log("svc-action", sid)
                raise RuntimeError("teardown action failed")
        elif action == "raising_cancelled_callable":
            # the action fails with the backend's cancellation exception although nobody cancelled the teardown (it awaited a
            # helper task it had cancelled itself): one more BaseException, answered by cancelling the task
            def teardown_action() -> None:
                run.log("svc-action", sid)
                if run.prog["backend"] == "asyncio":
                    import asyncio

                    raise asyncio.CancelledError("a helper task of the teardown action was cancelled")
                raise KeyboardInterrupt("injected: the teardown action was interrupted")
        elif action == "raising_async_callable":
            # fails while it is being awaited: the task is cancelled instead, just as for a callable that raises when called
            async def teardown_action() -> None:  # type: ignore[misc]
                run.log("svc-action", sid)
                raise RuntimeError("asynchronous teardown action failed")
        else:
            class StopNow(BaseException):
                pass

            def teardown_action() -> None:
                run.log("svc-action", sid)
                raise StopNow("teardown action failed badly")
        if callable(teardown_action):
            form = spec.get("action_form", "function")
            if form == "partial":
                import functools

                teardown_action = functools.partial(teardown_action)
            elif form in ("builtin", "method_wrapper") and action in ("sync_callable", "raising_callable"):
                # callables implemented in C that end up running Python code: a bound method of a builtin (`__module__` is
                # None) and a method-wrapper (no `__module__` at all) - think of `queue.clear`, `lock.release`, `it.__next__`
                inner_action = teardown_action
                if form == "builtin":
                    class Trigger:
                        def __lt__(self, other: Any) -> bool:
                            inner_action()
                            return False

                    teardown_action = [Trigger(), Trigger()].sort
                else:
                    def trigger_gen() -> Any:
                        inner_action()
                        yield

                    teardown_action = trigger_gen().__next__
            elif form == "awaitable_object" and action in ("async_callable", "raising_async_callable"):
                # a plain function that hands back an awaitable which is not a coroutine (a future, a gather(), an object with
                # __await__): the action is only carried out once that has been awaited
                inner_async = teardown_action

                class Pending:
                    def __init__(self, coro: Any) -> None:
                        self.coro = coro

                    def __await__(self) -> Any:
                        return self.coro.__await__()

                def teardown_action() -> Any:
                    if sid % 2:
                        return Pending(inner_async())
                    import types

                    # ... or a generator-based coroutine, which is not even an instance of collections.abc.Awaitable
                    @types.coroutine
                    def generator_based() -> Any:
                        return (yield from inner_async().__await__())

                    return generator_based()
            elif form in ("object", "unhashable_object", "falsy_object"):
                inner_action = teardown_action

                def call_action(self: Any) -> Any:
                    return inner_action()

                # a callable *object* (no __qualname__ / __name__ of its own), possibly unhashable (__eq__ without __hash__)
                extra: dict[str, Any] = {"__eq__": lambda s, o: s is o, "__hash__": None} if form == "unhashable_object" else {}
                if form == "falsy_object":
                    extra = {"__len__": lambda s: 0}  # (a callable whose truth value is False: a teardown action all the same)
                teardown_action = type("Stopper", (), {"__call__": call_action, **extra})()
        return func, teardown_action

    async def body(self, ctx: Any) -> None:
        from asphalt.core import add_resource, add_teardown_callback, start_service_task

        run = self
        registered: list[int] = self.registered

        async def party() -> None:
            for st in self.prog.get("party", []):
                if st[0] == "sleep":
                    await anyio.sleep(st[1])
                else:
                    rid = st[1]
                    ctx.add_resource(ST0(), f"r{rid}", teardown_callback=lambda rid=rid: run.log("td-run", f"r{rid}"))
                    registered.append(rid)
                    run.log("reg", f"r{rid}", by="party")

        async with create_task_group() as ptg:
            ptg.start_soon(party)
            if self.prog.get("in_component"):
                # the registrations are made from a component's start(): the module-level shortcuts then go through the component
                # context's delegating wrappers, and everything still belongs to the context start_component() was called in
                from asphalt.core import Component, start_component

                class Host(Component):
                    async def start(self_inner) -> None:  # noqa: N805
                        await run.owner_steps(ctx, registered)

                await start_component(Host, timeout=None)
            else:
                await self.owner_steps(ctx, registered)
        self.log("block-end", "owner")
        if self.prog.get("block_raises"):
            raise BlockFailed("the owner's block failed")  # the teardown that follows is an ordinary one, not a cancelled one

    async def owner_steps(self, ctx: Any, registered: list[int]) -> None:
        from asphalt.core import add_resource, add_teardown_callback, start_service_task

        run = self
        for st in self.prog["steps"]:
            kind = st[0]
            if kind == "teardown_starts_service":
                tid, spec = st[1], st[2]

                async def starter(tid: int = tid, spec: Any = spec) -> None:
                    run.log("td-run", f"x{tid}")
                    func, action = run.make_service(spec["sid"], spec, list(registered))
                    run.log("svc-spawn", spec["sid"], visible_expected=sorted(f"r{r}" for r in registered), during_teardown=True)
                    val = await ctx.start_service_task(func, run.svc_name(spec['sid']), teardown_action=action)
                    run.log("reg", f"s{spec['sid']}", start_value=repr(val), during_teardown=True)

                add_teardown_callback(starter)
                self.log("reg", f"x{tid}")
                continue
            if kind == "resource":
                rid = st[1]
                ctx.add_resource(ST0(), f"r{rid}", teardown_callback=lambda rid=rid: run.log("td-run", f"r{rid}"))
                registered.append(rid)
                self.log("reg", f"r{rid}")
            elif kind == "teardown":
                tid = st[1]
                add_teardown_callback(lambda tid=tid: run.log("td-run", f"t{tid}"))
                self.log("reg", f"t{tid}")
            elif kind == "service":
                sid, spec = st[1], st[2]
                func, action = self.make_service(sid, spec, list(registered))
                self.log("svc-spawn", sid, visible_expected=sorted(f"r{r}" for r in registered))
                # 'cancel' is the default teardown action: it is left out every other time
                act_kw = {} if (action == "cancel" and sid % 3 != 0) else {"teardown_action": action}
                if spec.get("from_child"):
                    # started on the owner *explicitly* while a short-lived child context (with a resource of its own) is the
                    # current one: the task belongs to the owner, snapshots the owner, and is stopped by the owner's teardown
                    from asphalt.core import Context

                    async with Context() as tmp_ctx:
                        tmp_ctx.add_resource(ST0(), f"tmp{sid}")
                        val = await ctx.start_service_task(func, run.svc_name(sid), **act_kw)
                    self.from_child_starts += 1
                elif spec["spawn_via"] == "shortcut":
                    val = await start_service_task(func, run.svc_name(sid), **act_kw)
                elif sid % 2:
                    val = await ctx.start_service_task(func=func, name=run.svc_name(sid), **act_kw)  # all by keyword
                else:
                    val = await ctx.start_service_task(func, run.svc_name(sid), **act_kw)
                self.start_values[sid] = val
                self.log("reg", f"s{sid}", start_value=repr(val))
            elif kind == "sleep":
                if st[1]:
                    await anyio.sleep(st[1])
            else:
                for _ in range(st[1]):
                    await checkpoint()

    async def main(self) -> None:
        from asphalt.core import Context

        self.t0 = anyio.current_time()
        try:
            if self.prog["nested"]:
                async with Context():
                    try:
                        async with Context() as ctx:
                            self.owner = ctx
                            await self.body(ctx)
                    except BaseException as e:
                        self.boundary = e
                        self.log("left", "owner", exc=describe_exc(e))
                        raise
                    else:
                        self.log("left", "owner", exc=None)
                    # a little later, still inside the root: nothing of the owner's may run any more
                    await anyio.sleep(50)
                    self.log("root-block-end", "root")
            else:
                async with Context() as ctx:
                    self.owner = ctx
                    await self.body(ctx)
        except BaseException as e:
            self.root_boundary = e
        if not self.prog["nested"]:
            self.boundary = self.root_boundary
            self.log("left", "owner", exc=describe_exc(self.root_boundary))
        self.log("root-left", "root", exc=describe_exc(self.root_boundary))
        await anyio.sleep(100)
        self.log("end", "harness")


def execute_service(prog: dict[str, Any]) -> ServiceRun:
    run = ServiceRun(prog)
    try:
        run_virtual(prog["backend"], run.main, sched_seed=prog["sched_seed"], shuffle=prog["shuffle"])
    except BaseException as e:
        if isinstance(e, (KeyboardInterrupt, SystemExit)) and "injected" not in str(e):
            raise
        run.crash = e
        run.trace.log("crash", "harness", exc=describe_exc(e))
    return run


def check_service(run: ServiceRun) -> tuple[list[dict[str, Any]], dict[str, int]]:
    prog = run.prog
    tr = run.trace
    ev = tr.events
    V: list[dict[str, Any]] = []
    c: dict[str, int] = {}

    def inc(k: str, n: int = 1) -> None:
        c[k] = c.get(k, 0) + n

    def bad(key: str, msg: str) -> None:
        if len(V) < 6 and not any(v["key"] == key for v in V):
            V.append({"key": key, "msg": msg, "witness": {"program": prog, "trace": tr.compact(120)}})

    if run.crash is not None:
        bad("service-deadlock" if isinstance(run.crash, VirtualDeadlock) else "service-crash", f"the program did not finish: {describe_exc(run.crash)}")
        return V, c
    specs = {st[1]: st[2] for st in prog["steps"] if st[0] == "service"}
    xspecs = {st[1]: st[2] for st in prog["steps"] if st[0] == "teardown_starts_service"}
    for xs in xspecs.values():
        specs[xs["sid"]] = xs
    left = next((e for e in ev if e["kind"] == "left"), None)
    block_end = next((e for e in ev if e["kind"] == "block-end"), None)
    if left is None:
        bad("service-never-left", "the owner context was never left")
        return V, c
    # ---- crash programs: the exception must surface from the root context, nothing may run after the owner was left
    if prog["crash"]:
        inc("crash_programs")
        if run.injected is not None:
            inc("crashes_injected")
            if not contains_same(run.root_boundary, run.injected):
                bad("service-exception-vanished", f"service task {prog['crash']['sid']} raised {describe_exc(run.injected)} but the root context raised "
                                                  f"{describe_exc(run.root_boundary)}")
    else:
        if run.root_boundary is not None:
            leaf_ok = all(type(x).__name__ in ("RuntimeError", "StopNow", "BlockFailed", "CancelledError") for x in _leaves(run.root_boundary))
            if not leaf_ok:
                bad("service-unexpected-exception", f"leaving the context raised {describe_exc(run.root_boundary)}")
    root_left = next((e for e in ev if e["kind"] == "root-left"), None)
    # In crash programs the crash may cancel the owner's teardown (the statement excludes a cancelled teardown): there
    # the bound is the exit of the root context, which hosts every service task.
    end_of_world = left["seq"] if not prog["crash"] else (root_left["seq"] if root_left else left["seq"])
    for e in ev:
        if e["seq"] > end_of_world and e["kind"].startswith("svc-"):
            bad("service-still-running", f"service task {e['actor']} produced {e['kind']} after the `async with` block of its owning context had been left")
    if prog["crash"]:
        return V, c
    # ---- every started service: context, snapshot, start value
    spawn = {e["actor"]: e for e in ev if e["kind"] == "svc-spawn"}
    snapshots: dict[Any, Any] = {}
    for e in ev:
        if e["kind"] == "svc-start":
            inc("services_started")
            if not e["parent_is_owner"]:
                bad("service-context-parent", f"service task {e['actor']} does not run in a child context of its owning context")
            # the snapshot is taken when the task starts running (another task may register something between the
            # start_service_task() call and that moment)
            at_start = sorted(r["actor"] for r in ev if r["kind"] == "reg" and r["actor"][0] == "r" and r["seq"] < e["seq"])
            snapshots[e["actor"]] = at_start
            if e["visible"] != at_start:
                bad("service-snapshot", f"service task {e['actor']} sees resources {e['visible']}, registered before it started running: {at_start}")
    for e in ev:
        if e["kind"] == "svc-body-end" and "visible" in e:
            inc("service_snapshots_rechecked_at_end")
            if e["visible"] != snapshots.get(e["actor"]):
                bad("service-snapshot", f"at its end service task {e['actor']} sees resources {e['visible']}; its context is a snapshot taken when it was started: "
                                        f"{snapshots.get(e['actor'])}")
    for sid, spec in specs.items():
        reg = next((e for e in ev if e["kind"] == "reg" and e["actor"] == f"s{sid}"), None)
        if reg is not None:
            want = repr(("started", sid)) if spec["started_value"] else repr(None)
            if reg["start_value"] != want:
                bad("service-start-value", f"start_service_task returned {reg['start_value']}, expected {want}")
    # ---- teardown: fold the LIFO stack into the expected schedule
    regs = [e["actor"] for e in ev if e["kind"] == "reg" and not e.get("during_teardown")]
    t = block_end["vt"] if block_end else 0.0
    spawn_time = {sid: next(e["vt"] for e in ev if e["kind"] == "svc-spawn" and e["actor"] == sid) for sid in specs if sid in spawn}
    expected_order: list[Any] = []  # ("td-run", name, t) | ("svc", sid, end_time|None, invoked, observe_cancel, state)
    pending = list(regs)
    while pending:
        name = pending.pop()
        if name[0] in "rt":
            expected_order.append(("td-run", name, t))
            continue
        if name[0] == "x":
            # a teardown callback that starts a service task: the new task's finalizer is registered last, so it runs next
            expected_order.append(("td-run", name, t))
            xs = xspecs[int(name[1:])]
            spawn_time[xs["sid"]] = t
            pending.append(f"s{xs['sid']}")
            inc("services_started_during_teardown")
            continue
        sid = int(name[1:])
        spec = specs[sid]
        action = spec["action"]
        self_end = spawn_time[sid] + spec.get("start_delay", 0) + spec["ends_by_itself"] if spec["ends_by_itself"] is not None else None
        own = 0.25 if spec["own_teardown"] else 0
        if self_end is not None and self_end + spec["cleanup"] + own <= t:
            state = "over"
        elif self_end is not None and self_end + spec["cleanup"] <= t:
            state = "own-teardown"  # body finished, the task's own context is still being torn down (shielded)
        elif self_end is not None and self_end <= t:
            state = "cleanup"
        else:
            state = "waiting"
        invoked = action not in ("cancel", "none")
        delay = spec["action_delay"] if action == "async_callable" else 0
        observe_cancel = False
        if state == "over":
            end = None
            t = t + delay
        elif state == "own-teardown":
            end = self_end + spec["cleanup"]
            t = t + delay
        elif state == "cleanup":
            # the task stopped by itself and is cleaning up (unshielded): a cancelling finalizer interrupts that now
            if action in ("cancel", "raising_callable", "raising_base_callable", "raising_async_callable", "raising_cancelled_callable"):
                end = t
            else:
                end = self_end + spec["cleanup"]
            t = max(t + delay, end)
        else:
            if action in ("cancel", "raising_callable", "raising_base_callable", "raising_async_callable", "raising_cancelled_callable"):
                stop_t, observe_cancel = t, True
            elif action == "none":
                stop_t = self_end
            elif action == "sync_callable":
                stop_t = t
            else:
                stop_t = t + delay if self_end is None else min(t + delay, self_end)
            end = stop_t + spec["cleanup"]
            t = max(t + delay, end)
        if spec["own_teardown"] and end is not None:
            t = max(t, end + 0.25)
        expected_order.append(("svc", sid, end, invoked, observe_cancel, state))
    # observed
    # services that had already finished by themselves when teardown reached them ended at a moment of their own
    over = {x[1] for x in expected_order if x[0] == "svc" and x[5] != "waiting"}
    obs = [e for e in ev if e["seq"] > (block_end["seq"] if block_end else 0) and e["kind"] in ("td-run", "svc-body-end", "svc-own-teardown")
           and not (e["kind"].startswith("svc-") and e["actor"] in over)]
    obs_names = [(e["kind"], e["actor"]) for e in obs]
    exp_items: list[Any] = []
    for x in expected_order:
        if x[0] == "td-run":
            exp_items.append((("td-run", x[1]), x[2]))
        elif x[5] == "waiting":
            exp_items.append((("svc-body-end", x[1]), x[2]))
            if specs[x[1]]["own_teardown"]:
                exp_items.append((("svc-own-teardown", x[1]), x[2] + 0.25))
                inc("service_own_teardown_checked")
    exp_names = [n for n, _ in exp_items]
    inc("teardown_items", len(exp_names))
    if obs_names != exp_names:
        bad("service-teardown-order", f"teardown sequence observed {obs_names}, expected (reverse registration order; each service task and its own context "
                                      f"finished before anything registered before it is torn down) {exp_names}")
    else:
        for e, (n, want_t) in zip(obs, exp_items):
            if abs(e["vt"] - want_t) > 1e-9:
                bad("service-teardown-time", f"{e['kind']} of {e['actor']} happened at virtual time {e['vt']}, expected {want_t}")
                break
        if abs(left["vt"] - t) > 1e-9:
            bad("service-teardown-time", f"the owner block was left at virtual time {left['vt']}, expected {t}")
    for x in expected_order:
        if x[0] != "svc":
            continue
        _, sid, end, invoked, observe_cancel, state = x
        n_action = sum(1 for e in ev if e["kind"] == "svc-action" and e["actor"] == sid)
        was_cancelled = any(e["kind"] == "svc-cancelled" and e["actor"] == sid for e in ev)
        inc(f"action_{specs[sid]['action']}")
        if invoked:
            inc(f"action_form_{specs[sid].get('action_form', 'function')}")
        inc(f"service_state_at_teardown_{state}")
        if invoked and n_action != 1:
            bad("service-action-count", f"teardown action of service {sid} was invoked {n_action} times")
        if not invoked and n_action:
            bad("service-action-count", f"service {sid} has no callable teardown action but one was invoked")
        if state != "waiting":
            continue
        if observe_cancel and not was_cancelled:
            bad("service-not-cancelled", f"service {sid} (teardown_action={specs[sid]['action']}) was not cancelled")
        if not observe_cancel and was_cancelled:
            bad("service-wrongly-cancelled", f"service {sid} (teardown_action={specs[sid]['action']}) was cancelled although it must be "
                                             f"{'awaited' if specs[sid]['action'] == 'none' else 'stopped by its callable'}")
    # was anything registered before a service torn down while the service still ran?
    if any(e.get("by") == "party" and any(s2["kind"] == "svc-spawn" and s2["seq"] < e["seq"] and
                                           next((r["seq"] for r in ev if r["kind"] == "reg" and r["actor"] == f"s{s2['actor']}"), 1 << 60) > e["seq"]
                                           for s2 in ev) for e in ev if e["kind"] == "reg"):
        inc("registrations_while_a_service_was_starting")
    if any(st[0] == "service" for st in prog["steps"]) and any(n[0] in "rt" for n in regs):
        inc("programs_with_registrations_around_services")
    if prog["nested"]:
        inc("nested_owner")
    else:
        inc("root_owner")
    if prog.get("in_component"):
        inc("registrations_made_from_a_component")
    if prog.get("block_raises"):
        inc("owner_blocks_ending_with_an_exception")
    if run.helpers_ran:
        inc("teardown_actions_that_started_a_helper_service_task", run.helpers_ran)
    if prog.get("same_names") and sum(1 for st in prog["steps"] if st[0] == "service") >= 2:
        inc("contexts_with_several_service_tasks_of_the_same_name")
    if run.from_child_starts:
        inc("services_started_on_the_owner_while_a_child_context_was_current", run.from_child_starts)
    return V, c


def _leaves(exc: BaseException | None) -> list[BaseException]:
    from vkit.trace import leaves

    return leaves(exc)


# =========================================================================== C09: task factories

# "selective": a handler that declines exactly the exceptions the tasks raise and would accept anything else (`return not
# isinstance(exc, MyFatalError)`): since it is only ever asked about exceptions that escaped a task, it behaves like "false"
HANDLER_VERDICTS = {"true": True, "false": False, "none": None, "one": 1, "zero": 0, "selective": False}


def gen_factory_program(rng: Any) -> dict[str, Any]:
    cmds: list[Any] = []
    tids = [0]
    live: list[int] = []
    will_crash = False

    def fresh() -> int:
        tids[0] += 1
        return tids[0]

    handler = rng.choice([None, "true", "true", "false", "none", "one", "zero", "selective"])
    swallow = handler is not None and bool(HANDLER_VERDICTS[handler])
    n = rng.randint(3, 14)
    many = rng.random() < 0.04
    if many:
        n = rng.choice([40, 70, 120])  # a busy factory: dozens of tasks, most of them still running when the owner is left
    for _ in range(n):
        r = rng.random()
        if r < (0.8 if many else 0.45):
            tid = fresh()
            outcome = rng.choice(["return", "return", "return", "raise", "teardown_raise"])
            if outcome in ("raise", "teardown_raise") and not swallow:
                if will_crash or rng.random() < 0.6:
                    outcome = "return"
                else:
                    will_crash = True
            spec = {"tid": tid, "via": rng.choice(["start_task", "start_task_soon"]), "from": rng.choice(["owner", "foreign", "foreign_sync", "task", "bare"]),
                    # (0: the task never waits for anything - it is over before whoever spawned it runs again)
                    "dur": rng.choice([0, 0.125, 0.625, 1.125, 2.625, 5.125]), "outcome": outcome, "exc": rng.choice(["ValueError", "Custom", "Group", "Group1", "Frozen"]),
                    "task_status": rng.random() < 0.5, "name": rng.choice([None, f"task{tid}"]),
                    "func_form": rng.choice(["function", "function", "partial", "object", "unhashable_object", "lambda", "decorated"])}
            if rng.random() < 0.3:
                spec["own_teardown"] = True
            if outcome == "return" and rng.random() < 0.3 and (swallow or not will_crash):
                # if this task is cancelled through its handle, its clean-up raises an Exception
                spec["raise_on_cancel"] = True
                if not swallow:
                    will_crash = True
            if spec["from"] == "foreign_sync":
                spec["via"] = "start_task_soon"
            if outcome == "return" and rng.random() < 0.25:
                # when this task is done it spawns a successor (possibly while the owning context is already being torn down,
                # waiting for this very task): the successor must be awaited as well, not cancelled
                spec["late_child_spec"] = {"tid": fresh(), "via": rng.choice(["start_task_soon", "start_task"]), "from": "task", "dur": rng.choice([0.625, 2.125]),
                                           "outcome": "return", "exc": "ValueError", "task_status": False, "name": None}
            if spec["from"] == "task":
                # spawned by another spawned task, right when that one starts
                pvia = rng.choice(["start_task_soon", "start_task_soon", "start_task"])
                spec["parent_spec"] = {"tid": fresh(), "via": pvia, "from": "owner", "dur": rng.choice([0.125, 1.125]), "outcome": "return",
                                       "exc": "ValueError", "task_status": pvia == "start_task", "name": None}
            cmds.append(["spawn", spec])
            live.append(tid)
        elif r < 0.55 and live:
            cmds.append(["cancel", rng.choice(live)])
        elif r < 0.7 and live:
            cmds.append(["wait", rng.choice(live)])
        elif r < 0.9:
            cmds.append(["sleep", rng.choice([0.5, 1, 2])])
        else:
            cmds.append(["yield", rng.randint(1, 3)])
    return {"backend": rng.choice(["asyncio", "trio"]), "sched_seed": rng.randrange(1 << 30), "shuffle": rng.random() < 0.5, "nested": rng.random() < 0.5,
            "handler": handler, "bystander": rng.random() < 0.3, "late_factory": rng.random() < 0.25, "cmds": cmds, "spawn_after_close": rng.choice([None, "start_task_soon", "start_task"]),
            # the factory is started in a context that holds no resource at all
            "handler_form": rng.choice(["function", "function", "falsy_object"]),
            "block_raises": (not will_crash) and rng.random() < 0.2,
            "owner_empty": rng.random() < 0.3, "factory_via": rng.choice(["method", "method", "shortcut", "component"])}


class FactoryRun:
    def __init__(self, prog: dict[str, Any]) -> None:
        self.prog = prog
        self.trace = Trace()
        self.t0 = 0.0
        self.handles: dict[int, Any] = {}
        self.handler_calls: list[Any] = []
        self.raised: dict[int, BaseException] = {}
        self.root_boundary: BaseException | None = None
        self.crash: BaseException | None = None
        self.owner: Any = None
        self.factory: Any = None
        self.handle_checks: list[dict[str, Any]] = []
        self.model_live: set[int] = set()
        self.cancel_requested: set[int] = set()
        self.unknown_handles: list[Any] = []  # (kept alive so that their ids stay unique)
        self.going_down = False
        self.after_close: dict[str, Any] = {}

    def t(self) -> float:
        return anyio.current_time() - self.t0

    def log(self, kind: str, actor: Any, **kw: Any) -> None:
        self.trace.log(kind, actor, vt=self.t(), **kw)

    def make_body(self, spec: dict[str, Any], spawner_ctx_getter: Any) -> Any:
        from asphalt.core import current_context, get_resources

        run = self
        tid = spec["tid"]

        called_in: list[Any] = []

        async def body(task_status: Any = None) -> None:
            ctx = current_context()
            par = ctx.parent
            from asphalt.core import get_resource_nowait as _grn

            if called_in:
                run.log("task-called", tid, in_own_context=bool(called_in[0] is ctx))

            late_factory_visible = _grn(ST0, "after_factory", optional=True) is not None
            run.log("task-start", tid, late_factory_visible=late_factory_visible, parent_parent_is_owner=bool(par is not None and par.parent is run.owner),
                    parent_is_spawner_ctx=bool(par is spawner_ctx_getter()), parent_is_owner=bool(par is run.owner),
                    visible=sorted(get_resources(ST0)))
            if spec.get("own_teardown"):
                # the task's own context has a teardown callback that takes (shielded) virtual time: the task is not finished
                # - for wait_finished(), all_task_handles() and the owner's teardown - before that is over
                async def own_teardown(exc: Any) -> None:
                    with anyio.CancelScope(shield=True):
                        await anyio.sleep(0.25)
                    # (it is told what ended the task: nothing, the task's own exception, or the cancellation that was requested)
                    run.log("task-ctx-closed", tid, got="none" if exc is None else ("cancellation" if is_cancellation(exc) else describe_exc(exc)))

                ctx.add_teardown_callback(own_teardown, pass_exception=True)
            child = spec.get("child_spec")
            if task_status is not None and not (child is not None and tid % 2):
                task_status.started(("sv", tid))
            if child is not None:
                # (every other parent that reports its start spawns the child *before* it calls started(): a task may use its
                # factory while whoever started it is still inside start_task())
                try:
                    await run.spawn(child, "task", ctx)
                except RuntimeError as e:
                    if not run.going_down:
                        raise
                    # (as below for a last-moment child: the application is already going down and the factory refused the spawn;
                    # the statement fixes no outcome for that, and this task simply goes on)
                    run.log("spawn-failed", child["tid"], exc=describe_exc(e), after_fatal=True)
                if task_status is not None and tid % 2:
                    task_status.started(("sv", tid))
            try:
                if spec["dur"]:
                    await anyio.sleep(spec["dur"])
            except BaseException as e:
                if is_cancellation(e) and spec.get("raise_on_cancel") and tid in run.cancel_requested:
                    # the task's clean-up fails while it is being cancelled through its handle: an Exception escapes the task
                    exc = make_exc(spec["exc"], f"task{tid}-cleanup")
                    run.raised[tid] = exc
                    run.going_down = run.going_down or not run.swallow
                    run.log("task-end", tid, how="raise", on_cancel=True)
                    raise exc
                run.log("task-end", tid, how="cancelled" if is_cancellation(e) else describe_exc(e))
                raise
            late = spec.get("late_child_spec")
            if late is not None:
                try:
                    await run.spawn(late, "task-at-its-end", ctx)
                except BaseException as e:
                    if isinstance(e, RuntimeError) and run.going_down:
                        # the application is already going down (another task's exception was not swallowed) and the factory
                        # refused the spawn: the statement fixes no outcome for that, and this task just ends
                        run.log("spawn-failed", late["tid"], exc=describe_exc(e), after_fatal=True)
                        run.log("task-end", tid, how="return")
                        return
                    run.log("task-end", tid, how="cancelled" if is_cancellation(e) else describe_exc(e))
                    raise
            if spec["outcome"] == "raise":
                exc = make_exc(spec["exc"], f"task{tid}")
                run.raised[tid] = exc
                run.going_down = run.going_down or not run.swallow
                run.log("task-end", tid, how="raise")
                raise exc
            if spec["outcome"] == "teardown_raise":
                # the task body ends normally, but a teardown callback of the task's own context fails: that
                # exception escapes the task as well
                exc = make_exc(spec["exc"], f"task{tid}-teardown")
                run.raised[tid] = exc

                def failing_teardown() -> None:
                    raise exc

                ctx.add_teardown_callback(failing_teardown)
                run.going_down = run.going_down or not run.swallow
                run.log("task-end", tid, how="raise", in_own_teardown=True)
                return
            run.log("task-end", tid, how="return")

        takes = bool(spec["task_status"] and spec["via"] == "start_task")
        if takes:
            async def func(*, task_status: Any) -> None:
                await body(task_status)
        else:
            async def func() -> None:  # type: ignore[misc]
                await body()
        if spec.get("func_form") == "lambda":
            # `lambda: work(argument)`: the argument expressions are evaluated when the library calls the lambda - in the task's
            # own context, like everything else the task does
            plain = func

            def func(**kw: Any) -> Any:  # type: ignore[misc]  # noqa: F811
                try:
                    called_in.append(current_context())
                except Exception as e:
                    called_in.append(e)
                return plain(**kw)

            if takes:
                return lambda *, task_status: func(task_status=task_status)
            return lambda: func()
        return wrap_form(func, spec.get("func_form", "function"), takes)

    async def spawn(self, spec: dict[str, Any], where: str, spawner_ctx: Any) -> None:
        func = self.make_body(spec, lambda: spawner_ctx)
        tid = spec["tid"]
        self.log("spawn-call", tid, via=spec["via"], where=where)
        try:
            if spec["via"] == "start_task":
                h = await (self.factory.start_task(func, name=spec["name"]) if tid % 2 else self.factory.start_task(func, spec["name"]))
            elif spec["name"] is None and tid % 3 == 0:
                h = self.factory.start_task_soon(func)  # the name simply left out
            else:
                h = self.factory.start_task_soon(func, name=spec["name"]) if tid % 2 else self.factory.start_task_soon(func, spec["name"])
        except BaseException as e:
            self.log("spawn-failed", tid, exc=describe_exc(e))
            raise
        self.handles[tid] = h
        self.model_live.add(tid)
        sv = getattr(h, "start_value", "<unset>") if spec["via"] == "start_task" else "<n/a>"
        self.log("spawned", tid, start_value=repr(sv), name=h.name)

    def check_handles(self, when: str) -> None:
        got = self.factory.all_task_handles()
        known = {id(h): tid for tid, h in self.handles.items()}
        got_tids = sorted((known.get(id(h), f"<unknown {h!r}>") for h in got), key=str)
        # handles the harness does not know yet (their start_task() call has not returned to whoever made it) are kept as objects
        # and resolved by the checker, which knows every handle by then
        unknown = [h for h in got if id(h) not in known]
        self.unknown_handles.extend(unknown)
        self.log("handles", "driver", when=when, got=[t for t in got_tids if not isinstance(t, str)], unknown_ids=[id(h) for h in unknown])
        # what the caller got is the caller's: emptying it (as code that works a snapshot off does) changes nothing for the factory
        try:
            got.clear()
        except (AttributeError, TypeError):
            pass  # an immutable snapshot is just as good

    async def main(self) -> None:
        from asphalt.core import Context

        prog = self.prog
        run = self
        self.t0 = anyio.current_time()
        handler = None
        self.swallow = prog["handler"] is not None and bool(HANDLER_VERDICTS[prog["handler"]])
        if prog["handler"] is not None:
            verdict = HANDLER_VERDICTS[prog["handler"]]

            def handler(exc: Exception) -> Any:
                run.handler_calls.append(exc)
                run.log("handler", "handler", exc=describe_exc(exc))
                if prog["handler"] == "selective":
                    return not any(contains_same(exc, x) for x in run.raised.values())
                return verdict

            if prog.get("handler_form") == "falsy_object":
                # a callable *object* that is falsy (an error collector that is still empty): it is a handler all the same
                plain_handler = handler
                handler = type("Collector", (), {"__call__": lambda self, exc: plain_handler(exc), "__len__": lambda self: 0})()

        foreign_send, foreign_recv = anyio.create_memory_object_stream[Any](0)
        foreign_ctx: list[Any] = []

        async def foreign_actor() -> None:
            # an unrelated context (own root) entered in another task, with a resource of its own
            async with Context() as fctx:
                fctx.add_resource(ST0(), "foreign")
                foreign_ctx.append(fctx)
                async for spec, done in foreign_recv:
                    try:
                        if spec["from"] == "foreign_sync":
                            def sync_callback() -> None:
                                func = run.make_body(spec, lambda: fctx)
                                run.log("spawn-call", spec["tid"], via="start_task_soon", where="sync-callback")
                                h = run.factory.start_task_soon(func, spec["name"])
                                run.handles[spec["tid"]] = h
                                run.model_live.add(spec["tid"])
                                run.log("spawned", spec["tid"], start_value="'<n/a>'", name=h.name)

                            sync_callback()
                        else:
                            await run.spawn(spec, "foreign", fctx)
                    except RuntimeError as e:
                        # spawning through a factory whose application is already going down (an exception escaped a task and
                        # was not swallowed): the statement fixes no outcome for that; anything else is a harness error
                        if not run.going_down:
                            raise
                        run.log("spawn-failed", spec["tid"], exc=describe_exc(e), after_fatal=True)
                    finally:
                        done.set()

        bare_send, bare_recv = anyio.create_memory_object_stream[Any](0)

        async def bare_actor() -> None:
            # a task that lives outside every context (a dispatcher started before the application's context was entered): it
            # has no current context at all when it spawns tasks through the factory
            async for spec, done in bare_recv:
                try:
                    await run.spawn(spec, "bare", None)
                except RuntimeError as e:
                    if not run.going_down:
                        raise
                    run.log("spawn-failed", spec["tid"], exc=describe_exc(e), after_fatal=True)
                finally:
                    done.set()

        async def owner_block(ctx: Any) -> None:
            self.owner = ctx
            if not prog.get("owner_empty"):
                ctx.add_resource(ST0(), "before")
            via = prog.get("factory_via", "method")
            if via == "shortcut":
                from asphalt.core import start_background_task_factory

                self.factory = await start_background_task_factory(exception_handler=handler)
            elif via == "component":
                # started from a component's start(): goes through the component context's delegating wrapper and belongs
                # to the context start_component() was called in
                from asphalt.core import Component, start_background_task_factory, start_component

                class FactoryHost(Component):
                    async def start(self_inner) -> None:  # noqa: N805
                        run.factory = await start_background_task_factory(exception_handler=handler)

                await start_component(FactoryHost, timeout=None)
            else:
                self.factory = await ctx.start_background_task_factory(exception_handler=handler)
            ctx.add_resource(ST0(), "after")
            ctx.add_resource_factory(lambda: ST0(), "after_factory", types=[ST0])  # (a factory added afterwards is not inherited either)
            if prog.get("late_factory"):
                # a shutdown hook of the owning context (registered after the main factory, so it runs before that one is finalized) that starts a task factory of its own
                # while the context is being torn down and lets it flush something: that factory belongs to the context as well,
                # and the teardown waits for its task
                async def shutdown_hook() -> None:
                    run.log("late-factory-start", "late")
                    late_factory = await ctx.start_background_task_factory()

                    async def flush() -> None:
                        await anyio.sleep(1.5)
                        run.log("late-factory-task-end", "late")

                    late_factory.start_task_soon(flush)

                ctx.add_teardown_callback(shutdown_hook)
            bystander_handle = None
            if prog.get("bystander"):
                # a second task factory of the same application with one task that only ever ends by being cancelled: a failure that
                # takes the application down takes that task down too (and is not held up by it)
                async def idle() -> None:
                    try:
                        await anyio.sleep_forever()
                    finally:
                        run.log("bystander-ended", "bystander")

                bystander = await ctx.start_background_task_factory()
                bystander_handle = await bystander.start_task(idle, "bystander")
            self.check_handles("factory started")
            for cmd in prog["cmds"]:
                kind = cmd[0]
                if kind == "spawn":
                    spec = cmd[1]
                    if spec["from"] == "task":
                        parent = dict(spec["parent_spec"])
                        child = {k: v for k, v in spec.items() if k != "parent_spec"}
                        parent["child_spec"] = child
                        await self.spawn(parent, "owner", ctx)
                        # let the parent task run so that it spawns the child
                        for _ in range(6):
                            await checkpoint()
                    elif spec["from"] == "owner":
                        await self.spawn(spec, "owner", ctx)
                    elif spec["from"] == "bare":
                        done = anyio.Event()
                        await bare_send.send((spec, done))
                        await done.wait()
                    else:
                        done = anyio.Event()
                        await foreign_send.send((spec, done))
                        await done.wait()
                elif kind == "cancel":
                    tid = cmd[1]
                    if tid in self.handles:
                        self.log("cancel-call", tid)
                        self.cancel_requested.add(tid)
                        self.handles[tid].cancel()
                        for _ in range(6):
                            await checkpoint()
                elif kind == "wait":
                    tid = cmd[1]
                    if tid in self.handles:
                        async def waiter(tid: int = tid) -> None:
                            run.log("wait-call", tid)
                            await run.handles[tid].wait_finished()
                            run.log("wait-return", tid)

                        self.waiters.start_soon(waiter)
                        if tid % 2 == 0:
                            # a second caller blocked in wait_finished() of the same handle at the same time
                            self.waiters.start_soon(waiter)
                elif kind == "sleep":
                    await anyio.sleep(cmd[1])
                else:
                    for _ in range(cmd[1]):
                        await checkpoint()
                self.check_handles(f"after {cmd[0]}")
            if bystander_handle is not None:
                bystander_handle.cancel()
                await bystander_handle.wait_finished()
            self.log("block-end", "owner")
            if prog.get("block_raises"):
                raise BlockFailed("the owner's block failed")  # an ordinary teardown follows: running tasks are awaited all the same

        try:
            async with create_task_group() as outer:
                self.waiters = outer
                outer.start_soon(foreign_actor)
                outer.start_soon(bare_actor)
                while not foreign_ctx:
                    await checkpoint()
                try:
                    async with Context() as root:
                        if prog["nested"]:
                            try:
                                async with Context() as ctx:
                                    await owner_block(ctx)
                            finally:
                                self.log("left", "owner")
                                self.check_handles("after owner left")
                        else:
                            await owner_block(root)
                except BaseException as e:
                    self.root_boundary = e
                if not prog["nested"]:
                    self.log("left", "owner")
                    self.check_handles("after owner left")
                self.log("root-left", "root", exc=describe_exc(self.root_boundary))
                # whatever ended the tasks - they returned, raised, were cancelled through their handle or by a failure that took
                # the application down - none of them is running any more: wait_finished() of every handle returns
                for tid, h in list(self.handles.items()):
                    with anyio.move_on_after(5) as sc:
                        await h.wait_finished()
                    self.log("wait-after-exit", tid, returned=not sc.cancelled_caught)
                # spawning after the factory has finished must fail and must not leave a handle behind
                if prog["spawn_after_close"] and self.root_boundary is None:
                    async def late() -> None:
                        run.log("late-task-ran", "late")

                    try:
                        if prog["spawn_after_close"] == "start_task":
                            await self.factory.start_task(late)
                        else:
                            self.factory.start_task_soon(late)
                        self.after_close["outcome"] = "returned"
                    except BaseException as e:
                        self.after_close["outcome"] = describe_exc(e)
                    await anyio.sleep(1)
                    self.check_handles("after spawn attempt on a finished factory")
                await anyio.sleep(50)
                foreign_send.close()
                bare_send.close()
                outer.cancel_scope.cancel()
        except BaseException as e:
            self.crash = e
        self.log("end", "harness")


def execute_factory(prog: dict[str, Any]) -> FactoryRun:
    run = FactoryRun(prog)
    try:
        run_virtual(prog["backend"], run.main, sched_seed=prog["sched_seed"], shuffle=prog["shuffle"])
    except BaseException as e:
        if isinstance(e, (KeyboardInterrupt, SystemExit)) and "injected" not in str(e):
            raise
        run.crash = e
        run.trace.log("crash", "harness", exc=describe_exc(e))
    return run


def check_factory(run: FactoryRun) -> tuple[list[dict[str, Any]], dict[str, int]]:
    prog = run.prog
    tr = run.trace
    ev = tr.events
    V: list[dict[str, Any]] = []
    c: dict[str, int] = {}

    def inc(k: str, n: int = 1) -> None:
        c[k] = c.get(k, 0) + n

    def bad(key: str, msg: str) -> None:
        if len(V) < 6 and not any(v["key"] == key for v in V):
            V.append({"key": key, "msg": msg, "witness": {"program": prog, "trace": tr.compact(140)}})

    if run.crash is not None:
        bad("factory-deadlock" if isinstance(run.crash, VirtualDeadlock) else "factory-crash", f"the program did not finish: {describe_exc(run.crash)}")
        return V, c
    specs: dict[int, Any] = {}
    for cmd in prog["cmds"]:
        if cmd[0] == "spawn":
            specs[cmd[1]["tid"]] = cmd[1]
            if cmd[1]["from"] == "task":
                specs[cmd[1]["parent_spec"]["tid"]] = cmd[1]["parent_spec"]
            if cmd[1].get("late_child_spec"):
                specs[cmd[1]["late_child_spec"]["tid"]] = cmd[1]["late_child_spec"]
    verdict = HANDLER_VERDICTS[prog["handler"]] if prog["handler"] is not None else None
    swallow = prog["handler"] is not None and bool(verdict)
    start = {e["actor"]: e for e in ev if e["kind"] == "task-start"}
    end = {e["actor"]: e for e in ev if e["kind"] == "task-end"}
    spawned = {e["actor"]: e for e in ev if e["kind"] == "spawned"}
    spawn_call = {e["actor"]: e for e in ev if e["kind"] == "spawn-call"}
    # the moment a task is really over: when its own context has been torn down (tasks with a teardown callback of their own)
    closed = {e["actor"]: e for e in ev if e["kind"] == "task-ctx-closed"}
    for tid, e in closed.items():
        how = end[tid]["how"] if tid in end else None
        if how in ("return", "cancelled") and not end[tid].get("in_own_teardown"):
            inc("task_context_teardowns_told_what_ended_the_task")
            want = "none" if how == "return" else "cancellation"
            if e.get("got") != want:
                bad("factory-task-context", f"task {tid} ended by {how}; the pass_exception teardown callback of its own context received {e.get('got')} (expected {want})")
    fin = {tid: closed.get(tid, e) for tid, e in end.items()}
    if closed:
        inc("tasks_with_a_slow_teardown_of_their_own", len(closed))
    # ---- which failure (if any) takes the application down
    fatal = [tid for tid, e in end.items() if e["how"] == "raise" and not swallow]
    fatal_seq = min((end[tid]["seq"] for tid in fatal), default=None)
    # ---- context of every task
    for e in ev:
        if e["kind"] == "task-called":
            inc("task_callables_whose_synchronous_part_observed_the_current_context")
            if not e["in_own_context"]:
                bad("factory-task-context", f"task {e['actor']}: the synchronous part of its callable (the argument expressions of `lambda: work(...)`) ran in another "
                                            f"context than the task itself")
    for tid, e in start.items():
        inc("tasks_started")
        where = spawn_call[tid]["where"] if tid in spawn_call else "?"
        inc(f"spawned_from_{where}")
        if tid in specs and specs[tid].get("func_form", "function") != "function":
            inc(f"task_func_form_{specs[tid]['func_form']}")
        if not e["parent_parent_is_owner"] or e["parent_is_owner"]:
            bad("factory-task-context", f"task {tid}: its context's parent is not the factory's own context (a child of the owning context)")
        if e["parent_is_spawner_ctx"]:
            bad("factory-task-context", f"task {tid} (spawned from {where}) runs in a child of the spawner's context")
        if e.get("late_factory_visible"):
            bad("factory-task-snapshot", f"task {tid} (spawned from {where}) can use a resource factory that was added to the owning context after the task factory "
                                         f"had been started")
        if prog.get("owner_empty"):
            inc("tasks_of_a_factory_started_in_an_empty_context")
        if e["visible"] != ([] if prog.get("owner_empty") else ["before"]):
            bad("factory-task-snapshot", f"task {tid} (spawned from {where}) sees resources {e['visible']}; the factory's context is a snapshot taken when the "
                                         f"factory was started: ['before']")
    # ---- start values / names
    for tid, e in spawned.items():
        spec = specs.get(tid)
        if spec is None:
            continue
        if spec["via"] == "start_task":
            want = repr(("sv", tid)) if spec["task_status"] else repr(None)
            if e["start_value"] != want:
                bad("factory-start-value", f"start_task returned a handle with start_value {e['start_value']}, expected {want}")
        if spec["name"] is not None and e["name"] != spec["name"]:
            bad("factory-handle-name", f"handle name {e['name']!r}, expected {spec['name']!r}")
    # ---- handle set at every driver step
    live: set[int] = set()
    spawned_so_far: set[int] = set()
    finished_so_far: set[int] = set()  # (a task may be over before the call that spawned it has returned)
    cursor = 0
    checks = [e for e in ev if e["kind"] == "handles"]
    for chk in checks:
        if fatal_seq is not None and chk["seq"] > fatal_seq:
            break
        for e in ev[cursor:chk["seq"]]:
            if e["kind"] == "spawned":
                spawned_so_far.add(e["actor"])
            elif e["kind"] in ("task-end", "task-ctx-closed") and fin.get(e["actor"]) is e:
                finished_so_far.add(e["actor"])
        live = spawned_so_far - finished_so_far
        cursor = chk["seq"]
        # tasks whose end is recorded at the very instant of the check are ambiguous only if no scheduling round lay between:
        # durations are on a .125 grid and the driver's on a .5 grid, so that never happens
        inc("handle_set_checks")
        never_ran = {t for t in live if t not in start and t in spawned}
        by_id = {id(h): t for t, h in run.handles.items()}
        got = [x for x in chk["got"]] + [by_id.get(i, f"<a handle nobody was given: {i}>") for i in chk.get("unknown_ids", [])]
        # a spawn whose call has not returned yet (the spawning task is still inside start_task()): its task may or may not
        # be listed already - the statement speaks of spawned tasks
        in_flight = {t for t, sc in spawn_call.items() if sc["seq"] < chk["seq"] and (t not in spawned or spawned[t]["seq"] > chk["seq"])}
        got = [x for x in got if x not in in_flight]
        live = live - in_flight
        # (the handle of an in-flight spawn that is later cancelled is never handed to anybody: such a handle cannot be named)
        anonymous_in_flight = [t for t in in_flight if t not in run.handles]
        nameless = [x for x in got if isinstance(x, str)]
        if len(nameless) <= len(anonymous_in_flight):
            got = [x for x in got if not isinstance(x, str)]
        if sorted(got, key=str) != sorted(live, key=str):
            extra = [x for x in got if x not in live]
            missing = [x for x in live if x not in got]
            key = "factory-handles-stale" if extra else "factory-handles-missing"
            if chk["when"] == "after spawn attempt on a finished factory":
                key = "factory-handles-after-failed-spawn"
            bad(key, f"all_task_handles() {chk['when']} at virtual time {chk['vt']}: {got}; spawned and not finished: {sorted(live)} "
                     f"(unexpected {extra}, missing {missing})")
            break
        if len(live) >= 2:
            inc("handle_set_checks_with_2plus_live")
    # ---- ends: every task ends at spawn + duration unless cancelled through its handle; cancel ends only that task
    cancels: dict[Any, Any] = {}
    for e in ev:
        if e["kind"] == "cancel-call":
            cancels.setdefault(e["actor"], e)  # the first cancel() of a task is the one that ends it
    for tid, s in start.items():
        spec = specs.get(tid)
        if spec is None:
            continue
        e = end.get(tid)
        if fatal_seq is not None and (e is None or e["seq"] >= fatal_seq):
            continue
        if tid not in spawned:
            continue  # its start_task() call never returned (the spawning task was cancelled inside it): part of that task's fate
        if e is None:
            bad("factory-task-lost", f"task {tid} started but never ended although the owning context was left")
            continue
        natural_end = s["vt"] + spec["dur"]
        cancelled_in_time = tid in cancels and cancels[tid]["seq"] < e["seq"] and (
            cancels[tid]["vt"] < natural_end or (e["how"] == "cancelled" or e.get("on_cancel")) and abs(cancels[tid]["vt"] - natural_end) < 1e-9)
        if cancelled_in_time:
            inc("tasks_cancelled_through_handle")
            if e.get("on_cancel"):
                inc("tasks_raising_while_cancelled_through_handle")
            if e["how"] != "cancelled" and not e.get("on_cancel"):
                bad("factory-cancel", f"task {tid} was cancelled through its handle but ended with {e['how']}")
            elif abs(e["vt"] - cancels[tid]["vt"]) > 1e-9:
                bad("factory-cancel", f"task {tid} cancelled at {cancels[tid]['vt']} ended at {e['vt']}")
        else:
            if e["how"] == "cancelled":
                others = [t for t in cancels if t != tid]
                why = "the teardown of the owning context" if not others else f"cancel() of another task ({others}) or the teardown"
                bad("factory-task-cancelled", f"task {tid} received a cancellation it did not ask for (through {why})")
            elif abs(e["vt"] - (s["vt"] + spec["dur"])) > 1e-9:
                bad("factory-task-time", f"task {tid} ended at {e['vt']}, expected {s['vt'] + spec['dur']}")
            inc("tasks_ran_to_completion")
    # ---- wait_finished
    for e in ev:
        if e["kind"] == "wait-return":
            tid = e["actor"]
            inc("wait_finished_returns")
            te = fin.get(tid)
            if fatal_seq is not None and e["seq"] > fatal_seq:
                continue  # after a propagating failure everything is being cancelled: only surfacing is checked
            if te is None or te["seq"] > e["seq"]:
                if tid in start or tid not in cancels:
                    bad("factory-wait-early", f"wait_finished() of task {tid} returned before the task's last event")
            else:
                call = next((x for x in reversed(ev[:e["seq"]]) if x["kind"] == "wait-call" and x["actor"] == tid), None)
                want = max(te["vt"], call["vt"] if call else 0.0)
                if abs(want - e["vt"]) > 1e-9 and (fatal_seq is None or e["seq"] < fatal_seq):
                    bad("factory-wait-late", f"wait_finished() of task {tid} (called at {call['vt'] if call else '?'}) returned at {e['vt']}, the task ended at {te['vt']}")
    if fatal_seq is None:
        n_returned = Counter(e["actor"] for e in ev if e["kind"] == "wait-return")
        n_called = Counter(e["actor"] for e in ev if e["kind"] == "wait-call")
        for tid_, n in n_called.items():
            if n > 1:
                inc("tasks_with_several_callers_blocked_in_wait_finished")
        for e in ev:
            if e["kind"] == "wait-call" and n_returned[e["actor"]] < n_called[e["actor"]]:
                bad("factory-wait-never-returned", f"wait_finished() of task {e['actor']} (called at {e['vt']}) had not returned 50 virtual seconds after the "
                                                   f"owning context was left")
    for e in ev:
        if e["kind"] == "wait-after-exit":
            inc("wait_finished_calls_after_the_owner_was_left")
            if not e["returned"]:
                bad("factory-wait-never-returned", f"wait_finished() of task {e['actor']}, called after the root context had been left "
                                                   f"({'by a failure that took the application down' if fatal else 'normally'}), did not return")
                break
    # ---- exception handler
    raisers = [tid for tid, e in end.items() if e["how"] == "raise"]
    for tid in raisers:
        exc = run.raised[tid]
        n = sum(1 for x in run.handler_calls if contains_same(x, exc))
        if end[tid].get("in_own_teardown"):
            inc("exceptions_from_task_context_teardown")
        inc("exceptions_escaping_tasks")
        if prog["handler"] is not None and n != 1:
            bad("factory-handler-count", f"the exception handler was called {n} times for the exception raised by task {tid}")
        if swallow:
            inc("exceptions_swallowed")
            if contains_same(run.root_boundary, exc):
                bad("factory-handler-verdict", f"handler returned {verdict!r} (truthy) but the exception of task {tid} propagated out of the root context")
        else:
            inc("exceptions_propagated")
            if not contains_same(run.root_boundary, exc):
                bad("factory-exception-vanished", f"task {tid} raised {describe_exc(exc)} (handler verdict {verdict!r}) but the root context raised "
                                                  f"{describe_exc(run.root_boundary)}")
    stray_handler = [x for x in run.handler_calls if not any(contains_same(x, run.raised[t]) for t in run.raised)]
    if stray_handler:
        bad("factory-handler-count", f"the exception handler was called with {describe_exc(stray_handler[0])}, which no task raised (cancellations must not reach it)")
    if prog.get("bystander"):
        inc("applications_with_a_second_task_factory_whose_task_only_ends_by_cancellation")
        if fatal and not any(e["kind"] == "bystander-ended" for e in ev) and any(e["kind"] == "root-left" for e in ev):
            bad("factory-task-after-exit", "the idle task of the application's second task factory was still running after the root context had been left "
                                           "by the failure")
    if prog.get("block_raises") and not fatal:
        inc("owner_blocks_ending_with_an_exception")
        if not any(type(x).__name__ == "BlockFailed" for x in _leaves(run.root_boundary)) or len(_leaves(run.root_boundary)) != 1:
            bad("factory-unexpected-exception", f"the owner's block raised BlockFailed; the root context raised {describe_exc(run.root_boundary)}")
    elif not fatal and run.root_boundary is not None:
        bad("factory-unexpected-exception", f"the root context raised {describe_exc(run.root_boundary)} although every escaping exception was handled")
    # ---- teardown waits for running tasks
    left = next((e for e in ev if e["kind"] == "left"), None)
    block_end = next((e for e in ev if e["kind"] == "block-end"), None)
    if not fatal and left is not None and block_end is not None:
        ends_after = [e["vt"] for e in fin.values() if e["seq"] > block_end["seq"]]
        # tasks spawned with start_task_soon right before the end may not even have started: they still run to completion
        exp_left = max([block_end["vt"]] + ends_after)
        if prog.get("late_factory"):
            inc("task_factories_started_by_a_teardown_callback_of_the_owner")
            exp_left = max(exp_left, block_end["vt"] + 1.5)  # (the hook was registered after the main factory: it runs first)
            flushed = next((e for e in ev if e["kind"] == "late-factory-task-end"), None)
            if flushed is None or flushed["seq"] > left["seq"]:
                bad("factory-task-after-exit", "the task of a task factory that a teardown callback of the owning context had started was "
                                               f"{'never finished' if flushed is None else 'still running'} when the owning context had been left")
        running_at_end = [tid for tid, s in start.items() if tid in fin and fin[tid]["seq"] > block_end["seq"]]
        if running_at_end:
            inc("owner_left_with_tasks_running")
        if any(e["kind"] == "spawn-call" and e["seq"] > block_end["seq"] for e in ev):
            inc("tasks_spawned_during_teardown")
        late = [e for e in ev if e["seq"] > left["seq"] and e["kind"] in ("task-start", "task-end", "task-ctx-closed")]
        if late:
            bad("factory-task-after-exit", f"task {late[0]['actor']} produced {late[0]['kind']} after the owning context had been left")
        if abs(left["vt"] - exp_left) > 1e-9:
            bad("factory-teardown-time", f"the owning context was left at {left['vt']}, expected {exp_left} (when its last task ended)")
        unfinished = [tid for tid in spawned if tid not in end and tid in specs]
        if unfinished:
            bad("factory-task-lost", f"tasks {unfinished} were spawned but never ran to an end although the owning context was left")
    if run.after_close:
        inc("spawn_attempts_on_finished_factory")
        if run.after_close.get("outcome") == "returned":
            if any(e["kind"] == "late-task-ran" for e in ev):
                pass  # the statement does not forbid a late spawn to work; the handle check above decides
    if prog["nested"]:
        inc("nested_owner")
    else:
        inc("root_owner")
    inc(f"factory_started_via_{prog.get('factory_via', 'method')}")
    if prog["handler"] is not None and prog.get("handler_form") == "falsy_object":
        inc("handler_is_a_falsy_callable_object")
    return V, c
