"""E2 - component-tree programs in virtual time (DESIGN.md section 2; serves C05 C06 C07).

A program is a tree of component classes built with type(); every node has an optional prepare()
and start() made of steps (sleep d / yield k / publish r / wait r / optional r / teardown t /
service s / fail).  A random linear extension of the structural order is drawn while generating and
``wait r`` is only placed after ``publish r`` in it, so the happens-before graph is acyclic by
construction.  ``schedule`` computes the expected virtual time of every step as its longest-path
time; the oracles compare the recorded probe trace with it.
"""
from __future__ import annotations

from typing import Any

import anyio
from anyio.lowlevel import checkpoint

import vkit  # noqa: F401
from vkit.trace import Trace, describe_exc, is_cancellation, make_exc
from vkit.vtime import VirtualDeadlock, run_virtual

N_TYPES = 5
NAMES = ["default", "x", "y"]
WINDOW = 1000.0  # virtual seconds observed after start_component returned / raised


class RT0:
    pass


class RT1:
    pass


class RT2:
    pass


class RT3(__import__("enum").Enum):
    # a resource type that happens to be iterable itself (an Enum class iterates over its members): one type, not a list of types
    RED = 1
    GREEN = 2


# (the last one is no class but a `typing` generic alias: a resource type like any other, whether given explicitly or taken from a
# factory's return annotation)
RTYPES: list[Any] = [RT0, RT1, RT2, RT3, __import__("typing").List[RT0]]

# --------------------------------------------------------------------------- generation


def gen_tree(rng: Any, *, max_depth: int = 4, max_fanout: int = 4, max_nodes: int = 14, wait_heavy: bool = False,
             with_services: bool = True, p_remap: float = 0.15, root_fan: int | None = None, chain: bool = False) -> dict[str, Any]:
    """returns {"nodes": {path: node}, "root": "", "resources": {rid: {...}}, "order": [...]}"""
    nodes: dict[str, dict[str, Any]] = {}
    counter = [0]

    def make(path: str, alias: str, depth: int) -> None:
        shape = rng.choice(["none", "prepare", "start", "both", "both", "start"])
        node = {"path": path, "alias": alias, "has_prepare": shape in ("prepare", "both"), "has_start": shape in ("start", "both"),
                "prepare": [], "start": [], "children": [], "via_config": rng.random() < 0.4, "methods_in_base": rng.random() < 0.3, "fragile_repr": rng.random() < 0.2, "plain_methods": rng.random() < 0.2, "methods_attached_late": rng.random() < 0.2,
                "naming": rng.choice(["class", "class", "class", "ref", "entrypoint"]),
                # start() written as an async generator under @context_teardown (the usual pattern in asphalt components)
                "start_ctx_teardown": rng.random() < 0.3}
        # many components publish themselves (`add_resource(self)`: own class, default name) first thing in prepare()/start()
        phases_here = [ph for ph in ("prepare", "start") if node[f"has_{ph}"]]
        node["publishes_self"] = rng.choice(phases_here) if phases_here and node["naming"] != "entrypoint" and rng.random() < (0.3 if depth == 0 else 0.12) else None
        nodes[path] = node
        counter[0] += 1
        if depth < max_depth:
            fan = rng.choice([0, 0, 1, 2, 2, 3, min(max_fanout, 4)]) if depth > 0 else (root_fan or rng.choice([1, 2, 3, max_fanout]))
            if chain:
                fan = 1  # a chain: every component but the last has exactly one child
            for i in range(fan):
                if counter[0] >= max_nodes:
                    break
                calias = f"c{i}"
                if rng.random() < p_remap:
                    calias = f"c{i}/{rng.choice(['x', 'y'])}"
                elif depth == 0 and rng.random() < 0.06:
                    calias = f".c{i}"  # an alias that starts with the path separator (directly below the root the path stays unambiguous)
                cpath = f"{path}.{calias}" if path else calias
                node["children"].append(cpath)
                make(cpath, calias, depth + 1)

    make("", "", 0)
    for n in nodes.values():
        if not n["has_prepare"] and not n["has_start"] and n["children"] and rng.random() < 0.5:
            for c in n["children"]:
                nodes[c]["via_config"] = True  # a pure grouping component configured entirely from outside
    # ---- draw a linear extension of the structural order while assigning steps
    resources: dict[int, dict[str, Any]] = {}
    free_pairs = [(t, n) for t in range(N_TYPES) for n in NAMES]
    rng.shuffle(free_pairs)
    published: list[int] = []
    remaining = {p: {"prepare": rng.randint(0, 4) if nodes[p]["has_prepare"] else 0,
                     "start": rng.randint(0, 4) if nodes[p]["has_start"] else 0} for p in nodes}
    state = {p: "waiting" for p in nodes}  # waiting -> prepare -> children -> start -> done
    state[""] = "prepare"
    order: list[Any] = []
    ids = [0]

    def fresh() -> int:
        ids[0] += 1
        return ids[0]

    def default_name_of(path: str) -> str:
        alias = nodes[path]["alias"]
        return alias.split("/", 1)[1] if "/" in alias else "default"

    def gen_step(path: str, phase: str) -> Any:
        r = rng.random()
        p_wait = 0.45 if wait_heavy else 0.2
        if r < p_wait and published:
            rid = rng.choice(published)
            if wait_heavy and rng.random() < 0.15:
                # a wait the component gives up after d virtual seconds (d = k + 0.25: no ties with the schedule)
                return ["timed_wait", rid, rng.choice([0.25, 0.75, 1.25, 2.25])]
            return ["wait", rid, rng.randint(0, 2)]
        if r < p_wait + 0.08:
            # optional lookup of something that may or may not exist yet
            t, n = rng.randrange(N_TYPES), rng.choice(NAMES)
            return ["optional", t, n]
        if r < p_wait + 0.08 + (0.3 if wait_heavy else 0.2) and free_pairs:
            t, n = free_pairs.pop()
            rid = fresh()
            kind = rng.choice(["static", "static", "factory", "afactory", "multi"])
            given = n
            # default-name remapping: only in start() of a component whose alias has a /name suffix
            if phase == "start" and "/" in nodes[path]["alias"] and default_name_of(path) == n and rng.random() < 0.8:
                given = "default"
            elif n == "default" and phase == "start" and "/" in nodes[path]["alias"]:
                # would be remapped to the alias name: publish under the remapped pair instead, if free
                tgt = (t, default_name_of(path))
                if tgt in free_pairs:
                    free_pairs.remove(tgt)
                    free_pairs.append((t, n))
                    n = tgt[1]
                    given = "default"
                else:
                    free_pairs.append((t, n))
                    return ["sleep", rng.choice([0.5, 1, 2])]
            extra = None
            if kind == "multi":
                others = [(tt, nn) for (tt, nn) in free_pairs if nn == n and tt != t]
                if others:
                    extra = others[0][0]
                    free_pairs.remove(others[0])
                else:
                    kind = "static"
            overlap = None
            if kind in ("factory", "afactory"):
                # a factory that is also declared for a type which a static resource published *earlier by this very component, in
                # this phase* already holds under the same name: legal - its product is filed under the types that are still free
                held = [r0["type"] for r0 in resources.values() if r0["by"] == path and r0["phase"] == phase and r0["name"] == n
                        and r0["given_name"] == given and r0["kind"] == "static" and r0["type"] != t
                        and not any(r1.get("overlap_type") == r0["type"] and r1["name"] == n for r1 in resources.values())]
                if held and rng.random() < 0.6:
                    overlap = held[0]
            resources[rid] = {"type": t, "name": n, "given_name": given, "kind": kind, "extra_type": extra, "by": path, "phase": phase,
                              "teardown": rng.random() < 0.3, "overlap_type": overlap}
            published.append(rid)
            burst = rng.choice([0] * 8 + [5, 49, 60, 200]) if wait_heavy else 0
            return ["publish", rid, rng.randint(0, 2), burst]
        if r < 0.75:
            return ["sleep", rng.choice([0.5, 1, 1.5, 2, 3])]
        if r < 0.85:
            return ["yield", rng.randint(1, 3)]
        if r < 0.93:
            return ["teardown", fresh()]
        if with_services and r < 0.96:
            return ["service", fresh(), rng.choice([0, 0, 0.5, 1])]
        if r < 0.985:
            # the component starts an inner component tree of its own (re-entrant start_component)
            return ["substart", fresh(), rng.choice([0, 0.5, 1])]
        return ["sleep", rng.choice([0.5, 1])]

    def advance(path: str) -> None:
        """move a node forward when its current phase has no steps left"""
        while True:
            st = state[path]
            if st == "prepare" and remaining[path]["prepare"] == 0:
                state[path] = "children"
                for c in nodes[path]["children"]:
                    state[c] = "prepare"
                    advance(c)
            elif st == "children" and all(state[c] == "done" for c in nodes[path]["children"]):
                state[path] = "start"
            elif st == "start" and remaining[path]["start"] == 0:
                state[path] = "done"
                parent = path.rsplit(".", 1)[0] if "." in path else ("" if path else None)
                if parent is not None and path != "":
                    advance(parent)
                return
            else:
                return

    advance("")
    while state[""] != "done":
        runnable = [p for p in nodes if state[p] in ("prepare", "start") and remaining[p][state[p]] > 0]
        if not runnable:  # pragma: no cover - structural bug
            raise RuntimeError("generator wedged")
        p = rng.choice(runnable)
        phase = state[p]
        step = gen_step(p, phase)
        nodes[p][phase].append(step)
        order.append((p, phase, len(nodes[p][phase]) - 1))
        remaining[p][phase] -= 1
        advance(p)
    # a multi-type publication that conflicts on its *second* type: it must raise ResourceConflict and register nothing,
    # in particular not its first type, which another component publishes (and others may be waiting for) later on
    pubs = []
    for (p, phase, idx) in order:
        st = nodes[p][phase][idx]
        if st[0] == "publish":
            pubs.append((p, phase, st))
    inserted = 0
    for i, (p1, ph1, st1) in enumerate(pubs):
        r1 = resources[st1[1]]
        if inserted >= 2 or r1["kind"] != "static" or rng.random() > 0.35:
            continue
        later = [st2 for (p2, ph2, st2) in pubs[i + 1:] if resources[st2[1]]["name"] == r1["name"] and resources[st2[1]]["type"] != r1["type"]
                 and resources[st2[1]]["kind"] in ("static", "factory", "afactory") and p2 != p1]
        if not later:
            continue
        st2 = rng.choice(later)
        steps = nodes[p1][ph1]
        pos = next(k for k, x in enumerate(steps) if x is st1)
        steps.insert(pos + 1, ["bad_publish", st1[1], st2[1]])
        inserted += 1
    if wait_heavy:
        # delay about half of the publications so that requests made earlier really have to wait
        # (a sleep has no dependencies, so inserting it keeps the happens-before graph acyclic)
        for n in nodes.values():
            for phase in ("prepare", "start"):
                out: list[Any] = []
                for st in n[phase]:
                    if st[0] == "publish" and rng.random() < 0.5:
                        out.append(["sleep", rng.choice([0.5, 1, 2])])
                    out.append(st)
                n[phase] = out
    return {"nodes": nodes, "resources": {str(k): v for k, v in resources.items()}}


def add_funnel(tree: dict[str, Any], rng: Any) -> dict[str, Any]:
    """one more child of the root, declared *last*, which publishes a resource after one virtual second - and every other child of the
    root asks for that resource first thing: all the siblings, however many, are waiting at once for the last one"""
    nodes, resources = tree["nodes"], tree["resources"]
    root = nodes[""]
    if not root["children"]:
        return tree
    t, n = rng.randrange(N_TYPES), "funnel"  # (a name that nothing else in the tree uses)
    rid = str(max([int(k) for k in resources] + [0]) + 1000)
    alias = f"c{len(root['children']) + 500}"
    resources[rid] = {"type": t, "name": n, "given_name": n, "kind": "static", "extra_type": None, "by": alias, "phase": "start", "teardown": False, "overlap_type": None}
    for c in root["children"]:
        node = nodes[c]
        phase = "prepare" if node["has_prepare"] else ("start" if node["has_start"] and not node["children"] else None)
        if phase is not None:
            node[phase].insert(0, ["wait", int(rid), 0])
    template = dict(nodes[root["children"][0]])
    template.update({"path": alias, "alias": alias, "has_prepare": False, "has_start": True, "prepare": [], "start": [["sleep", 1], ["publish", int(rid), 0, 0]],
                     "children": [], "via_config": False, "naming": "class", "publishes_self": None, "start_ctx_teardown": False})
    nodes[alias] = template
    root["children"].append(alias)
    tree["funnel"] = True
    return tree


# --------------------------------------------------------------------------- expected schedule


def schedule(tree: dict[str, Any]) -> dict[str, Any]:
    """longest-path virtual time of every step: {(path, phase, idx): t_end} plus begin/end of phases"""
    nodes = tree["nodes"]
    res = tree["resources"]
    memo: dict[Any, float] = {}
    pub_step: dict[str, Any] = {}
    for p, n in nodes.items():
        for phase in ("prepare", "start"):
            for i, st in enumerate(n[phase]):
                if st[0] == "publish":
                    pub_step[str(st[1])] = (p, phase, i)

    def parent_of(path: str) -> str | None:
        if path == "":
            return None
        return path.rsplit(".", 1)[0] if "." in path else ""

    def t_node_start(path: str) -> float:
        par = parent_of(path)
        if par is None:
            return 0.0
        return t_phase_end(par, "prepare")

    def t_phase_begin(path: str, phase: str) -> float:
        key = ("pb", path, phase)
        if key in memo:
            return memo[key]
        if phase == "prepare":
            v = t_node_start(path)
        else:
            v = t_phase_end(path, "prepare")
            for c in nodes[path]["children"]:
                v = max(v, t_phase_end(c, "start"))
        memo[key] = v
        return v

    def t_phase_end(path: str, phase: str) -> float:
        steps = nodes[path][phase]
        if not steps:
            return t_phase_begin(path, phase)
        return t_step(path, phase, len(steps) - 1)

    def t_step(path: str, phase: str, idx: int) -> float:
        key = (path, phase, idx)
        if key in memo:
            return memo[key]
        before = t_phase_begin(path, phase) if idx == 0 else t_step(path, phase, idx - 1)
        st = nodes[path][phase][idx]
        if st[0] == "sleep":
            v = before + st[1]
        elif st[0] == "wait":
            v = max(before, t_step(*pub_step[str(st[1])]))
        elif st[0] == "timed_wait":
            v = min(max(before, t_step(*pub_step[str(st[1])])), before + st[2])
        elif st[0] == "substart":
            v = before + st[2]
        elif st[0] == "service":
            v = before + (st[2] if len(st) > 2 else 0)
        else:
            v = before
        memo[key] = v
        return v

    out: dict[str, Any] = {"steps": {}, "phase_begin": {}, "phase_end": {}}
    for p, n in nodes.items():
        for phase in ("prepare", "start"):
            out["phase_begin"][(p, phase)] = t_phase_begin(p, phase)
            out["phase_end"][(p, phase)] = t_phase_end(p, phase)
            for i in range(len(n[phase])):
                out["steps"][(p, phase, i)] = t_step(p, phase, i)
    out["total"] = t_phase_end("", "start")
    return out


# --------------------------------------------------------------------------- interpretation


class Deferred:
    """an awaitable that is not a coroutine object (what a future, a gather() or a lazily connecting client looks like)"""

    def __init__(self, coro: Any) -> None:
        self.coro = coro

    def __await__(self) -> Any:
        return self.coro.__await__()


_NOT_PASSED: Any = object()


def generator_based(coro: Any) -> Any:
    """the same as a generator-based coroutine (`@types.coroutine`): awaitable, but not an instance of collections.abc.Awaitable"""
    import types

    @types.coroutine
    def gen() -> Any:
        return (yield from coro.__await__())

    return gen()


class Value:
    """resource values; about a third of them are *falsy* objects (like an empty registry or mapping)"""

    def __init__(self, rid: Any, serial: int = 0) -> None:
        self.rid, self.serial = rid, serial

    def __bool__(self) -> bool:
        try:
            return int(self.rid) % 3 != 0
        except (TypeError, ValueError):
            return True

    def __repr__(self) -> str:
        return f"Value(r{self.rid}#{self.serial})"


class Run:
    def __init__(self, case: dict[str, Any]) -> None:
        self.case = case
        self.tree = case["tree"]
        self.trace = Trace()
        self.values: dict[str, Any] = {}
        self.factory_calls: dict[str, int] = {}
        self.instances: dict[str, Any] = {}
        self.classes: dict[str, Any] = {}
        self.outcome: Any = None
        self.returned: Any = None
        self.raised: BaseException | None = None
        self.injected: BaseException | None = None
        self.visible_after: dict[str, Any] = {}
        self.sub_published: dict[str, Any] = {}
        self.via_inject = 0
        self.annotated_factories = 0
        self.overlapping_factories = 0
        self.awaitable_object_factories = 0
        self.fragile_reprs = 0
        self.shared_registrations = 0
        self.plain_phase_calls = 0
        self.nested_tree_probes = 0
        self.late_context_probes = 0
        self.app_tg: Any = None
        self.after_startup = anyio.Event()
        run = self

        class Pool:
            def release(self_inner) -> None:  # noqa: N805
                run.log("teardown-run", "shared-release")

        self.pool = Pool()
        self.printable: set[str] = set()
        self.awaitable_object_teardowns = 0
        self.caller_ctx: Any = None
        self.crash: BaseException | None = None
        self.left_exc: BaseException | None = None
        self.t_call = 0.0
        self.ctx_parent_ok = True

    def t(self) -> float:
        return anyio.current_time() - self.t_call

    def log(self, kind: str, actor: Any, **kw: Any) -> None:
        self.trace.log(kind, actor, vt=self.t(), **kw)

    # ---- component classes

    def build_classes(self) -> None:
        from asphalt.core import Component

        run = self
        nodes = self.tree["nodes"]
        fault = self.case.get("fault")

        def make_class(path: str) -> Any:
            node = nodes[path]
            hard_children = [c for c in node["children"] if not nodes[c]["via_config"]]

            def __init__(self: Any, **kw: Any) -> None:
                run.instances[path] = self
                run.log("ctor", path, kwargs=sorted(kw))
                if fault and fault["path"] == path and fault["phase"] == "creating":
                    run.injected = make_exc(fault["exc"], path)
                    run.log("fail", path, phase="creating")
                    raise run.injected
                for c in hard_children:
                    self.add_component(nodes[c]["alias"], run.type_arg(c), **run.extra_kwargs(c))

            ns: dict[str, Any] = {"__init__": __init__}
            if node.get("fragile_repr") and node.get("naming") != "entrypoint":
                # a component that cannot be printed before its start() has run (a dataclass with a field(init=False), say)
                def __repr__(self: Any) -> str:
                    if path not in run.printable:
                        raise AttributeError(f"component {path!r} has no attribute 'connection' yet")
                    return f"<component {path}>"

                ns["__repr__"] = ns["__str__"] = __repr__
                run.fragile_reprs += 1
            methods: dict[str, Any] = {}
            for phase in ("prepare", "start"):
                if node[f"has_{phase}"]:
                    methods[phase] = run.make_phase(path, phase)
            cname = "Comp_" + (path.replace(".", "_").replace("/", "__") or "root")
            if node.get("naming") == "entrypoint":
                # a static fixture class reached through a real entry point; behaviour delegated per instance
                import verif_fixture_components as vf

                vf.REGISTRY[path] = {"ctor": __init__, **methods}
                return vf.BY_SHAPE[(node["has_prepare"], node["has_start"])][1]
            if node.get("methods_in_base") and methods:
                # prepare()/start() inherited from an intermediate base class / mixin instead of defined in the class body
                base = type("Base_" + cname, (Component,), methods)
                return type(cname, (base,), ns)
            if node.get("methods_attached_late") and methods:
                # prepare()/start() attached after the class statement (class decorator / assignment / monkeypatch)
                cls = type(cname, (Component,), ns)
                for mname, m in methods.items():
                    setattr(cls, mname, m)
                return cls
            ns.update(methods)
            return type(cname, (Component,), ns)

        # children first so that parents can refer to them
        import sys
        import types as _types

        dyn = sys.modules.setdefault("verif_dyn_components", _types.ModuleType("verif_dyn_components"))
        for path in sorted(nodes, key=lambda p: -p.count(".") - (1 if p else 0)):
            cls = self.classes[path] = make_class(path)
            if nodes[path].get("naming") == "ref":
                setattr(dyn, cls.__name__, cls)  # reachable as "verif_dyn_components:<name>"

    def type_arg(self, path: str) -> Any:
        """how the type of this node is named: class object, `module:attr` reference or entry-point name"""
        node = self.tree["nodes"][path]
        naming = node.get("naming", "class")
        if naming == "ref":
            return f"verif_dyn_components:{self.classes[path].__name__}"
        if naming == "entrypoint":
            import verif_fixture_components as vf

            return vf.BY_SHAPE[(node["has_prepare"], node["has_start"])][0]
        return self.classes[path]

    def extra_kwargs(self, path: str) -> dict[str, Any]:
        return {"verif_path": path} if self.tree["nodes"][path].get("naming") == "entrypoint" else {}

    def config_for(self, path: str) -> dict[str, Any]:
        nodes = self.tree["nodes"]
        comps = {}
        for c in nodes[path]["children"]:
            sub = self.config_for(c)
            if nodes[c]["via_config"]:
                sub["type"] = self.type_arg(c)
                sub.update(self.extra_kwargs(c))
            if sub or nodes[c]["via_config"]:
                comps[nodes[c]["alias"]] = sub
        return {"components": comps} if comps else {}

    def make_phase(self, path: str, phase: str) -> Any:
        run = self
        node = self.tree["nodes"][path]
        fault = self.case.get("fault")

        async def method(self: Any, option: Any = _NOT_PASSED) -> None:
            # (prepare()/start() with an optional parameter of their own, as a method called from elsewhere too may have: the
            # framework calls them without arguments)
            from asphalt.core import Context, current_context

            if option is not _NOT_PASSED:
                raise AssertionError(f"{phase}() of {path!r} was called with an argument: {type(option).__name__}")
            run.log("phase-begin", path, phase=phase)
            try:
                if node.get("publishes_self") == phase:
                    from asphalt.core import add_resource as _add

                    _add(self)
                    run.log("self-published", path)
                for idx, st in enumerate(node[phase]):
                    if fault and fault["path"] == path and fault["phase"] == phase and fault["idx"] == idx:
                        run.injected = make_exc(fault["exc"], path)
                        run.log("fail", path, phase=phase, idx=idx)
                        raise run.injected
                    await run.do_step(path, phase, idx, st)
                if fault and fault["path"] == path and fault["phase"] == phase and fault["idx"] >= len(node[phase]):
                    run.injected = make_exc(fault["exc"], path)
                    run.log("fail", path, phase=phase, idx=len(node[phase]))
                    raise run.injected
                if run.case.get("probe_ctx"):
                    # C12: a context created inside prepare()/start() takes the caller's context as parent
                    # (also when it names the current context as its parent itself, which is the same as leaving the parent out)
                    c = Context(current_context()) if (len(path) + (phase == "start")) % 2 else Context()
                    if c.parent is not run.caller_ctx:
                        run.ctx_parent_ok = False
                    if phase == "start" and run.app_tg is not None:
                        # ... and so does one created, long after the start-up, by a task that was spawned from here into a task
                        # group of the application (it inherited this component's context as its current context)
                        async def per_request() -> None:
                            await run.after_startup.wait()
                            await anyio.sleep(1)
                            run.late_context_probes += 1
                            try:
                                if Context().parent is not run.caller_ctx:
                                    run.ctx_parent_ok = False
                            except Exception:
                                run.ctx_parent_ok = False

                        run.app_tg.start_soon(per_request)
            except BaseException as e:
                run.log("phase-abort", path, phase=phase, exc=describe_exc(e), cancelled=is_cancellation(e))
                raise
            if phase == "start":
                run.printable.add(path)
            run.log("phase-end", path, phase=phase)

        if phase == "start" and node.get("start_ctx_teardown"):
            from asphalt.core import context_teardown

            @context_teardown
            async def generator_start(self: Any) -> Any:
                await method(self)
                # the rest of start() runs when the caller's context is torn down; the wrapper registers it right
                # after this yield (no checkpoint in between)
                run.log("teardown-reg", f"ct:{path}")
                yield
                run.log("teardown-run", f"ct:{path}")

            return generator_start
        if node.get("plain_methods"):
            # prepare()/start() written as plain functions that hand back an awaitable which is not a coroutine object (a
            # wrapper produced by a decorator, a generator-based coroutine): awaited - and timed out - like any other
            def plain(self: Any) -> Any:
                run.plain_phase_calls += 1
                return Deferred(method(self)) if len(path) % 2 else generator_based(method(self))

            return plain
        return method

    async def do_step(self, path: str, phase: str, idx: int, st: list[Any]) -> None:
        from asphalt.core import (
            add_resource,
            add_resource_factory,
            add_teardown_callback,
            get_resource,
            start_service_task,
        )

        kind = st[0]
        run = self
        if kind == "sleep":
            if (idx + len(path)) % 3 == 0:
                # the component is suspended in an awaitable that is no coroutine object of its own (`await anext(it, default)`)
                async def ticker() -> Any:
                    await anyio.sleep(st[1])
                    yield None

                agen = ticker()
                try:
                    await anext(agen, None)
                finally:
                    await agen.aclose()
            else:
                await anyio.sleep(st[1])
        elif kind == "yield":
            for _ in range(st[1]):
                await checkpoint()
        elif kind == "publish":
            rid = str(st[1])
            r = self.tree["resources"][rid]
            for _ in range(st[2]):
                await checkpoint()
            T = RTYPES[r["type"]]
            for b in range(st[3] if len(st) > 3 else 0):
                # a burst of unrelated publications without a checkpoint right before the awaited one
                add_resource(b, f"burst_{rid}_{b}")
            td = None
            if r["teardown"]:
                def td(rid: str = rid) -> None:
                    run.log("teardown-run", f"res{rid}")

                if int(rid) % 4 == 1:
                    # a plain callable whose cleanup only happens when the awaitable object it returns is awaited
                    async def later(rid: str = rid) -> None:
                        await checkpoint()
                        run.log("teardown-run", f"res{rid}")

                    def td(rid: str = rid) -> Any:  # type: ignore[misc]
                        return Deferred(later()) if int(rid) % 8 == 1 else generator_based(later())

                    self.awaitable_object_teardowns += 1
            if r["kind"] == "factory":
                def factory(rid: str = rid) -> Any:
                    run.factory_calls[rid] = run.factory_calls.get(rid, 0) + 1
                    return Value(rid, run.factory_calls[rid])

                if r.get("overlap_type") is not None:
                    add_resource_factory(factory, r["given_name"], types=[RTYPES[r["overlap_type"]], T] if int(rid) % 2 else [T, RTYPES[r["overlap_type"]]])
                    self.overlapping_factories += 1
                elif int(rid) % 3 == 0:
                    # the types come from the return annotation, a Union of the awaited type and one nobody asks for
                    from typing import Union

                    factory.__annotations__["return"] = Union[T, type(f"Extra{rid}", (), {})]
                    add_resource_factory(factory, r["given_name"])
                    self.annotated_factories += 1
                elif int(rid) % 2:
                    add_resource_factory(factory, r["given_name"], types=T)  # (a single type need not be wrapped in a list)
                else:
                    add_resource_factory(factory, r["given_name"], types=[T])
            elif r["kind"] == "afactory":
                async def afactory(rid: str = rid) -> Any:
                    run.factory_calls[rid] = run.factory_calls.get(rid, 0) + 1
                    n = run.factory_calls[rid]
                    await checkpoint()
                    return Value(rid, n)

                if r.get("overlap_type") is not None:
                    add_resource_factory(afactory, r["given_name"], types=[RTYPES[r["overlap_type"]], T] if int(rid) % 2 else [T, RTYPES[r["overlap_type"]]])
                    self.overlapping_factories += 1
                elif int(rid) % 3 == 0:
                    from typing import Union

                    afactory.__annotations__["return"] = Union[type(f"Extra{rid}", (), {}), T]
                    add_resource_factory(afactory, r["given_name"])
                    self.annotated_factories += 1
                elif int(rid) % 3 == 1:
                    # an ordinary callable handing back an awaitable that is not a coroutine (a lazily connecting client, a
                    # future): its product is what awaiting that yields
                    def lazy_factory(make: Any = afactory, rid: str = rid) -> Any:
                        return Deferred(make()) if int(rid) % 2 else generator_based(make())

                    if int(rid) % 6 == 1:
                        # ... given as a configured factory *object* that is unhashable (a plain @dataclass with __call__)
                        lazy_factory = type("LazyFactory", (), {"__call__": lambda self, f=lazy_factory: f(), "__eq__": lambda s, o: s is o, "__hash__": None})()
                    add_resource_factory(lazy_factory, r["given_name"], types=[T])
                    self.awaitable_object_factories += 1
                elif int(rid) % 4 == 2:
                    add_resource_factory(afactory, r["given_name"], types=T)
                else:
                    add_resource_factory(afactory, r["given_name"], types=[T])
            else:
                v = Value(rid)
                self.values[rid] = v
                types = ([T] if int(rid) % 2 else T) if r["kind"] == "static" else [RTYPES[r["extra_type"]], T]
                if td is not None:
                    add_resource(v, r["given_name"], types, teardown_callback=td)
                    self.log("teardown-reg", f"res{rid}")
                else:
                    add_resource(v, r["given_name"], types)
            self.log("published", path, rid=rid)
        elif kind == "bad_publish":
            r1 = self.tree["resources"][str(st[1])]
            r2 = self.tree["resources"][str(st[2])]
            try:
                # the name as *registered* for r1 (this runs in the same phase, so the same remapping applies to r1's given name)
                # every other time the rejected value is the very object that already holds the second pair
                same = self.values.get(str(st[1])) if int(st[1]) % 2 == 0 else None
                # ... and every other rejected publication carries a teardown callback, which must never run
                rejected_td = (lambda n=st[1]: run.log("teardown-run", f"rejected{n}")) if int(st[2]) % 2 == 0 else None
                add_resource(same if same is not None else Value(f"rejected-{st[1]}"), r1["given_name"], [RTYPES[r2["type"]], RTYPES[r1["type"]]],
                             teardown_callback=rejected_td)
                outcome = "accepted"
            except Exception as e:
                outcome = type(e).__name__
            self.log("bad-publish", path, outcome=outcome, first_type_of=str(st[2]))
        elif kind == "wait":
            rid = str(st[1])
            r = self.tree["resources"][rid]
            for _ in range(st[2]):
                await checkpoint()
            self.log("wait-begin", path, rid=rid)
            got = await get_resource(RTYPES[r["type"]], r["name"])
            ok = (got is self.values.get(rid)) if r["kind"] not in ("factory", "afactory") else (isinstance(got, Value) and got.rid == rid)
            self.log("wait-end", path, rid=rid, ok=bool(ok), got=repr(got))
        elif kind == "timed_wait":
            rid = str(st[1])
            r = self.tree["resources"][rid]
            got = None
            self.log("timed-wait-begin", path, rid=rid, limit=st[2])
            with anyio.move_on_after(st[2]) as scope:
                got = await get_resource(RTYPES[r["type"]], r["name"])
            ok = scope.cancelled_caught or ((got is self.values.get(rid)) if r["kind"] not in ("factory", "afactory") else (isinstance(got, Value) and got.rid == rid))
            self.log("timed-wait-end", path, rid=rid, timed_out=bool(scope.cancelled_caught), ok=bool(ok), got=repr(got))
        elif kind == "optional":
            t, n = st[1], st[2]
            seq_before = len(self.trace)
            t_before = self.t()
            if (idx + len(path)) % 2:
                # the same optional lookup made through @inject (an `Optional[T] = resource(name)` parameter of a helper)
                from typing import Optional

                from asphalt.core import inject, resource

                async def helper(*, dep=resource(n)):  # type: ignore[no-untyped-def]
                    return dep

                helper.__annotations__["dep"] = Optional[RTYPES[t]]
                got = await inject(helper)()
                self.via_inject += 1
            else:
                got = await get_resource(RTYPES[t], n, optional=True)
            self.log("optional", path, type=t, name=n, got=repr(got), got_rid=getattr(got, "rid", None), immediate=bool(len(self.trace) == seq_before and self.t() == t_before))
        elif kind == "teardown":
            tid = st[1]

            def probe(tid: int = tid) -> None:
                run.log("teardown-run", f"td{tid}")

            if tid % 3 == 0:
                # several components give back their lease on one shared pool: each registers `pool.release`, a bound method that
                # compares equal to the one its neighbour registered - and each registration is a callback of its own
                add_teardown_callback(run.pool.release)
                self.log("teardown-reg", "shared-release")
                run.shared_registrations += 1
            else:
                add_teardown_callback(probe)
                self.log("teardown-reg", f"td{tid}")
        elif kind == "substart":
            from asphalt.core import Component, start_component

            sub_id, dur = st[1], st[2]

            class Inner(Component):
                async def prepare(self_inner) -> None:  # noqa: N805
                    add_teardown_callback(lambda: run.log("teardown-run", f"sub{sub_id}a"))
                    run.log("teardown-reg", f"sub{sub_id}a")

                async def start(self_inner) -> None:  # noqa: N805
                    if dur:
                        await anyio.sleep(dur)
                    if run.case.get("probe_ctx"):
                        # C12: also two component trees deep, a new context's parent is the context the outer tree was started in
                        from asphalt.core import Context as _Context

                        run.nested_tree_probes += 1
                        if _Context().parent is not run.caller_ctx:
                            run.ctx_parent_ok = False
                    add_teardown_callback(lambda: run.log("teardown-run", f"sub{sub_id}b"))
                    run.log("teardown-reg", f"sub{sub_id}b")
                    # the root of the inner tree publishes a resource under the default name: it is a root component with no
                    # alias of its own, whatever the alias of the component that started it
                    sub_type = type(f"SubValue{sub_id}", (), {})
                    obj = sub_type()
                    add_resource(obj)
                    run.sub_published[str(sub_id)] = (sub_type, obj)

            inner = await start_component(Inner, timeout=None)
            self.log("substarted", path, ok=isinstance(inner, Inner))
        elif kind == "service":
            sid = st[1]

            init = st[2] if len(st) > 2 else 0

            async def service(sid: int = sid) -> None:
                run.log("service-start", f"svc{sid}")
                try:
                    await anyio.sleep_forever()
                finally:
                    run.log("service-stop", f"svc{sid}")

            async def slow_service(*, task_status: Any, sid: int = sid) -> None:
                # a service that needs `init` virtual seconds before it reports itself started: the component sits inside
                # start_service_task() for that long
                run.log("service-start", f"svc{sid}")
                try:
                    await anyio.sleep(init)
                    task_status.started()
                    await anyio.sleep_forever()
                finally:
                    run.log("service-stop", f"svc{sid}")

            await start_service_task(slow_service if init else service, f"svc{sid}")
            self.log("teardown-reg", f"svc{sid}")
        else:
            raise ValueError(kind)
        self.log("step", path, phase=phase, idx=idx, step=kind)

    # ---- main

    async def main(self) -> None:
        from asphalt.core import Context, get_resource, start_component

        case = self.case
        self.build_classes()
        config = self.config_for("")
        timeout = case.get("timeout", None)
        try:
            async with Context() as ctx:
                self.caller_ctx = ctx
                self.t_call = anyio.current_time()
                self.log("call", "harness", timeout=timeout)
                # (an application-level task group that outlives the start-up: components may hand it long-running tasks)
                async with anyio.create_task_group() as app_tg:
                    self.app_tg = app_tg
                    try:
                        self.returned = await start_component(self.type_arg(""), {**config, **self.extra_kwargs("")}, timeout=timeout)
                    except BaseException as e:
                        self.raised = e
                        self.log("raised", "harness", exc=describe_exc(e))
                    else:
                        self.log("returned", "harness")
                    self.after_startup.set()
                    await anyio.sleep(WINDOW)
                    app_tg.cancel_scope.cancel()
                self.log("window-end", "harness")
                for ti, T in enumerate(RTYPES):
                    self.visible_after[str(ti)] = dict(ctx.get_resources(T))
                for sub_id, (sub_type, obj) in self.sub_published.items():
                    self.visible_after["sub:" + sub_id] = {k: (v is obj) for k, v in ctx.get_resources(sub_type).items()}
                for path_, inst in self.instances.items():
                    if self.tree["nodes"][path_].get("publishes_self"):
                        self.visible_after["self:" + path_] = dict(ctx.get_resources(type(inst)))
                # outside component startup a lookup never waits
                t0, n0 = self.t(), len(self.trace)
                try:
                    await get_resource(RT0, "never_published")
                    self.log("outside-lookup", "harness", result="returned")
                except LookupError:
                    self.log("outside-lookup", "harness", result="ResourceNotFound", immediate=bool(self.t() == t0 and len(self.trace) == n0))
                self.log("leaving", "harness")
        except BaseException as e:
            self.left_exc = e
        self.log("left", "harness", exc=describe_exc(self.left_exc))


def execute(case: dict[str, Any]) -> Run:
    run = Run(case)
    try:
        run_virtual(case["backend"], run.main, sched_seed=case.get("sched_seed", 0), shuffle=case.get("shuffle", False))
    except BaseException as e:
        if isinstance(e, (KeyboardInterrupt, SystemExit)) and "injected" not in str(e):
            raise
        run.crash = e
        run.trace.log("crash", "harness", exc=describe_exc(e))
    return run


# --------------------------------------------------------------------------- oracles


def _bad(V: list[dict[str, Any]], run: Run, key: str, msg: str, **w: Any) -> None:
    if len(V) < 6:
        V.append({"key": key, "msg": msg, "witness": {**w, "case": {k: v for k, v in run.case.items() if k != "tree"},
                                                      "tree": summarize(run.tree), "trace": run.trace.compact(150)}})


def summarize(tree: dict[str, Any]) -> Any:
    return {p or "(root)": {"prepare": n["prepare"] if n["has_prepare"] else None, "start": n["start"] if n["has_start"] else None,
                            "children": n["children"]} for p, n in tree["nodes"].items()}


def check_success(run: Run, *, exact_schedule: bool = True) -> tuple[list[dict[str, Any]], dict[str, int]]:
    """C05 / C06 oracle for programs without injected faults"""
    V: list[dict[str, Any]] = []
    c: dict[str, int] = {}
    tree, tr = run.tree, run.trace
    nodes = tree["nodes"]

    def inc(k: str, n: int = 1) -> None:
        c[k] = c.get(k, 0) + n

    def bad(key: str, msg: str, **w: Any) -> None:
        _bad(V, run, key, msg, **w)

    if run.crash is not None:
        if isinstance(run.crash, VirtualDeadlock):
            bad("start-deadlock", f"an acyclic program did not complete: {run.crash}")
        else:
            bad("start-crash", f"the program crashed: {describe_exc(run.crash)}")
        return V, c
    if run.raised is not None:
        key = "start-timeout" if isinstance(run.raised, TimeoutError) else "start-raised"
        if isinstance(getattr(run.raised, "__cause__", None), LookupError):
            key = "wait-failed"  # a waiting get_resource() was failed instead of released by its own resource
        bad(key, f"start_component raised {describe_exc(run.raised)} for a program without faults (acyclic dependencies)")
        return V, c
    sched = schedule(tree)
    ev = tr.events
    first_phase = next((e["seq"] for e in ev if e["kind"] == "phase-begin"), 1 << 60)
    ctors = [e for e in ev if e["kind"] == "ctor"]
    if sorted(e["actor"] for e in ctors) != sorted(nodes):
        bad("start-ctor-set", f"constructors run for {sorted(e['actor'] for e in ctors)}, tree has {sorted(nodes)}")
    if any(e["seq"] > first_phase for e in ctors):
        bad("start-ctor-late", "a component was constructed after the first prepare()/start() began")
    begins: dict[Any, dict[str, Any]] = {}
    ends: dict[Any, dict[str, Any]] = {}
    for e in ev:
        if e["kind"] == "phase-begin":
            k = (e["actor"], e["phase"])
            if k in begins:
                bad("start-method-twice", f"{e['phase']}() of component {e['actor']!r} was called twice")
            begins[k] = e
        elif e["kind"] == "phase-end":
            ends[(e["actor"], e["phase"])] = e
    for p, n in nodes.items():
        for phase in ("prepare", "start"):
            if n[f"has_{phase}"] and (p, phase) not in ends:
                bad("start-method-missing", f"{phase}() of component {p!r} never completed although start_component returned")
    ret = next((e for e in ev if e["kind"] == "returned"), None)
    # structural happens-before edges (sequence numbers)
    first_event: dict[str, int] = {}
    for e in ev:
        if e["kind"] in ("phase-begin",) and e["actor"] not in first_event:
            first_event[e["actor"]] = e["seq"]
    for p, n in nodes.items():
        for cpath in n["children"]:
            if n["has_prepare"] and cpath in first_event and (p, "prepare") in ends and first_event[cpath] < ends[(p, "prepare")]["seq"]:
                bad("start-child-before-prepare", f"child {cpath!r} began before prepare() of its parent {p!r} had completed")
        if n["has_start"] and (p, "start") in begins:
            def descendants(q: str) -> list[str]:
                out = []
                for cc in nodes[q]["children"]:
                    out.append(cc)
                    out.extend(descendants(cc))
                return out

            for d in descendants(p):
                for phase in ("prepare", "start"):
                    if nodes[d][f"has_{phase}"] and (d, phase) in ends and ends[(d, phase)]["seq"] > begins[(p, "start")]["seq"]:
                        bad("start-parent-before-descendant", f"start() of {p!r} began before {phase}() of its descendant {d!r} had returned")
                    inc("parent_descendant_edges_checked")
    if ret is not None:
        if ("", "start") in ends and ret["seq"] < ends[("", "start")]["seq"]:
            bad("start-returned-early", "start_component returned before the root's start() had returned")
        if run.returned is not run.instances.get(""):
            bad("start-return-value", f"start_component returned {run.returned!r}, not the root component instance")
    # exact schedule
    if exact_schedule:
        for e in ev:
            if e["kind"] == "step":
                exp = sched["steps"][(e["actor"], e["phase"], e["idx"])]
                inc("steps_timed")
                if e["step"] in ("wait", "timed_wait"):
                    inc("wait_steps_timed")
                if abs(e["vt"] - exp) > 1e-9:
                    late = "later" if e["vt"] > exp else "earlier"
                    key = "wait-wrong-time" if e["step"] in ("wait", "timed_wait") else "start-schedule"
                    bad(key, f"step {e['idx']} ({e['step']}) of {e['phase']}() of {e['actor']!r} completed at virtual time {e['vt']}, "
                             f"{late} than its longest-path time {exp}")
                    break
        if ret is not None and abs(ret["vt"] - sched["total"]) > 1e-9:
            bad("start-schedule", f"start_component returned at virtual time {ret['vt']}, expected {sched['total']}")
    # waits: identity of what was returned, never before publication
    pub_seq = {e["rid"]: e["seq"] for e in ev if e["kind"] == "published"}
    for e in ev:
        if e["kind"] == "wait-end":
            inc("waits_completed")
            if not e["ok"]:
                bad("wait-wrong-object", f"get_resource in {e['actor']!r} returned {e['got']} instead of the published resource r{e['rid']}")
            if e["rid"] not in pub_seq or pub_seq[e["rid"]] > e["seq"]:
                bad("wait-false-wakeup", f"get_resource in {e['actor']!r} returned before resource r{e['rid']} was published")
            wb = next((b for b in ev if b["kind"] == "wait-begin" and b["actor"] == e["actor"] and b["rid"] == e["rid"] and b["seq"] < e["seq"]), None)
            if wb is not None and e["rid"] in pub_seq:
                if pub_seq[e["rid"]] > wb["seq"]:
                    inc("waits_that_blocked")
                else:
                    inc("waits_already_published")
        elif e["kind"] == "bad-publish":
            inc("conflicting_multi_type_publications")
            if e["outcome"] != "ResourceConflict":
                bad("wait-conflicting-publication", f"a multi-type add_resource conflicting on its second type in {e['actor']!r}: {e['outcome']} (expected ResourceConflict)")
        elif e["kind"] == "timed-wait-end":
            inc("timed_waits")
            if e["timed_out"]:
                inc("timed_waits_abandoned")
            elif not e["ok"]:
                bad("wait-wrong-object", f"get_resource in {e['actor']!r} returned {e['got']} instead of the published resource r{e['rid']}")
        elif e["kind"] == "optional":
            inc("optional_lookups")
            key = next((rid for rid, r in tree["resources"].items() if r["type"] == e["type"] and r["name"] == e["name"]), None)
            # (an asynchronous factory legitimately takes scheduling rounds to produce the value: that is not waiting for a publication)
            if not e["immediate"] and not (key is not None and tree["resources"][key]["kind"] == "afactory" and e["got"] != "None"):
                bad("wait-optional-waited", f"optional lookup in {e['actor']!r} took virtual time or let other tasks run")
            present = key is not None and key in pub_seq and pub_seq[key] < e["seq"]
            if key is not None and tree["resources"][key]["kind"] == "multi":
                pass
            if present and e["got_rid"] != key:
                bad("wait-optional-wrong", f"optional lookup of an already published resource r{key} in {e['actor']!r} returned {e['got']}")
            if not present and e["got"] != "None":
                # a multi-type resource also publishes its extra type
                extra = [rid for rid, r in tree["resources"].items() if r.get("extra_type") == e["type"] and r["name"] == e["name"] and rid in pub_seq and pub_seq[rid] < e["seq"]]
                if not extra or e["got_rid"] != extra[0]:
                    bad("wait-optional-wrong", f"optional lookup of an unpublished resource in {e['actor']!r} returned {e['got']}")
        elif e["kind"] == "outside-lookup":
            if e["result"] != "ResourceNotFound" or not e.get("immediate"):
                bad("wait-outside-waited", f"get_resource outside component startup: {e}")
    # ownership: published resources visible in the caller's context; teardown probes run LIFO at exit
    if run.via_inject:
        inc("optional_lookups_through_inject", run.via_inject)
    if run.tree.get("funnel"):
        inc("trees_with_33plus_children_all_waiting_for_the_child_declared_last")
    if run.overlapping_factories:
        inc("factories_also_declared_for_a_pair_that_a_static_resource_holds", run.overlapping_factories)
    if run.annotated_factories:
        inc("factories_typed_by_a_union_return_annotation", run.annotated_factories)
    if run.late_context_probes:
        inc("contexts_created_after_startup_by_a_task_spawned_from_a_component", run.late_context_probes)
    if run.nested_tree_probes:
        inc("contexts_created_in_a_component_tree_started_inside_a_component", run.nested_tree_probes)
    if run.plain_phase_calls:
        inc("prepare_or_start_methods_returning_a_non_coroutine_awaitable", run.plain_phase_calls)
    if run.shared_registrations >= 2:
        inc("trees_registering_one_bound_method_as_teardown_callback_more_than_once")
    if run.fragile_reprs:
        inc("components_whose_repr_raises_before_start", run.fragile_reprs)
    if run.awaitable_object_factories:
        inc("factories_returning_an_awaitable_object", run.awaitable_object_factories)
    if run.awaitable_object_teardowns:
        inc("teardown_callbacks_returning_an_awaitable_object", run.awaitable_object_teardowns)
    for sub_id in run.sub_published:
        got = run.visible_after.get("sub:" + sub_id)
        if got is not None:
            inc("resources_of_nested_trees_checked")
            if got != {"default": True}:
                bad("start-ownership", f"the root component of the component tree started inside a component (substart {sub_id}) published a resource under the default "
                                       f"name; the caller's context holds it as {got} (name -> is the published object)")
    for e in ev:
        if e["kind"] == "self-published":
            inc("components_publishing_themselves")
            if run.instances.get(e["actor"]) not in list(run.visible_after.get("self:" + e["actor"], {}).values()):
                bad("start-ownership", f"component {e['actor']!r} published itself with add_resource(self) but is not visible under its class in the caller's context")
    for rid, r in tree["resources"].items():
        if rid not in pub_seq:
            continue
        vis = run.visible_after.get(str(r["type"]), {})
        inc("ownership_checked")
        if r["kind"] in ("factory", "afactory"):
            continue
        if vis.get(r["name"]) is not run.values.get(rid):
            bad("start-ownership", f"resource r{rid} ({RTYPES[r['type']].__name__}, {r['name']!r}) published by {r['by']!r} is not visible in the caller's "
                                   f"context after start_component returned (visible names: {sorted(vis)})")
    V2, c2 = check_teardown(run)
    V.extend(V2)
    for k, v in c2.items():
        c[k] = c.get(k, 0) + v
    stray = [e for e in ev if ret is not None and e["seq"] > ret["seq"] and e["kind"] in ("phase-begin", "step", "phase-end", "ctor")]
    if stray:
        bad("start-work-after-return", f"component code still ran after start_component returned: {stray[0]['kind']} of {stray[0]['actor']!r}")
    if not run.ctx_parent_ok:
        bad("current-parent-in-component", "a Context created inside prepare()/start() did not take the caller's context as parent")
    return V, c


def check_teardown(run: Run) -> tuple[list[dict[str, Any]], dict[str, int]]:
    """everything registered belongs to the caller's context: torn down, in reverse order, when it is left"""
    V: list[dict[str, Any]] = []
    c: dict[str, int] = {}
    ev = run.trace.events
    leaving = next((e["seq"] for e in ev if e["kind"] == "leaving"), None)
    left = next((e["seq"] for e in ev if e["kind"] == "left"), None)
    regs = [e["actor"] for e in ev if e["kind"] == "teardown-reg"]
    # a service task whose start_service_task() call was cancelled before it returned is stopped by the backend
    # right away and was never registered: its stop is not a teardown of the caller's context
    runs = [(e["actor"], e["seq"]) for e in ev if e["kind"] == "teardown-run" or (e["kind"] == "service-stop" and e["actor"] in regs)]
    names = []
    for a, s in runs:
        names.append(a)
    if leaving is None or left is None:
        _bad(V, run, "start-ownership", "the caller's context was never left")
        return V, c
    early = [a for a, s in runs if s < leaving]
    if early:
        _bad(V, run, "start-teardown-early", f"teardown of {early} ran before the caller's context was left")
    late = [a for a, s in runs if s > left]
    if late:
        _bad(V, run, "start-teardown-late", f"teardown of {late} ran after the caller's context had been left")
    exp = list(reversed(regs))
    if names != exp:
        _bad(V, run, "start-teardown-order", f"teardown at exit of the caller's context: {names}; registered (reverse order): {exp}")
    c["teardown_registrations_checked"] = len(regs)
    return V, c


# --------------------------------------------------------------------------- C07: faults and timeouts


def fault_positions(tree: dict[str, Any]) -> list[dict[str, Any]]:
    out = []
    for p, n in tree["nodes"].items():
        out.append({"path": p, "phase": "creating", "idx": 0})
        for phase in ("prepare", "start"):
            if n[f"has_{phase}"]:
                for i in range(len(n[phase]) + 1):
                    out.append({"path": p, "phase": phase, "idx": i})
    return out


def timeout_positions(tree: dict[str, Any]) -> list[float]:
    sched = schedule(tree)
    times = sorted({0.0} | {t for t in sched["steps"].values()})
    total = sched["total"]
    return [t + 0.25 for t in times if t < total] + [total + 0.25]


PHASE_LABEL = {"creating": "creating", "prepare": "preparing", "start": "starting"}


def check_fault(run: Run) -> tuple[list[dict[str, Any]], dict[str, int]]:
    from asphalt.core import ComponentStartError

    V: list[dict[str, Any]] = []
    c: dict[str, int] = {}
    tree, tr, case = run.tree, run.trace, run.case
    nodes = tree["nodes"]
    ev = tr.events

    def inc(k: str, n: int = 1) -> None:
        c[k] = c.get(k, 0) + n

    def bad(key: str, msg: str, **w: Any) -> None:
        _bad(V, run, key, msg, **w)

    if run.crash is not None:
        bad("fail-crash" if not isinstance(run.crash, VirtualDeadlock) else "fail-deadlock", f"the program did not finish: {describe_exc(run.crash)}")
        return V, c
    sched = schedule(tree)
    fault = case.get("fault")
    timeout = case.get("timeout")
    raised_ev = next((e for e in ev if e["kind"] == "raised"), None)
    returned_ev = next((e for e in ev if e["kind"] == "returned"), None)
    if fault is not None:
        inc("fault_runs")
        inc(f"fault_phase_{fault['phase']}")
        if fault["path"].count(".") >= 1:
            inc("fault_in_grandchild_or_deeper")
        if fault["phase"] == "creating":
            t_fail = 0.0
        elif fault["idx"] == 0:
            t_fail = sched["phase_begin"][(fault["path"], fault["phase"])]
        else:
            t_fail = sched["steps"][(fault["path"], fault["phase"], fault["idx"] - 1)]
        exc = run.raised
        if exc is None:
            bad("fail-not-raised", f"component {fault['path']!r} failed in phase {fault['phase']} but start_component returned normally")
            return V, c
        if run.injected is None:
            bad("fail-not-reached", f"the failing step was never reached; start_component raised {describe_exc(exc)}")
            return V, c
        if not isinstance(exc, ComponentStartError):
            bad("fail-wrong-exception", f"start_component raised {describe_exc(exc)} instead of ComponentStartError (injected {describe_exc(run.injected)})")
        else:
            if exc.phase != PHASE_LABEL[fault["phase"]]:
                bad("fail-phase-label", f"ComponentStartError.phase is {exc.phase!r}, the component failed while {PHASE_LABEL[fault['phase']]}")
            if exc.path != fault["path"]:
                bad("fail-path", f"ComponentStartError.path is {exc.path!r}, the failing component is {fault['path']!r}")
            if exc.component_type is not run.classes[fault["path"]]:
                bad("fail-class", f"ComponentStartError.component_type is {exc.component_type!r}")
            if exc.__cause__ is not run.injected:
                bad("fail-cause", f"ComponentStartError.__cause__ is {describe_exc(exc.__cause__)}, not the exception the component raised")
        if raised_ev is not None and abs(raised_ev["vt"] - t_fail) > 1e-9:
            bad("fail-time", f"start_component raised at virtual time {raised_ev['vt']}, the component failed at {t_fail}")
        # ancestors' start() never begins
        anc = []
        p = fault["path"]
        while p != "":
            p = p.rsplit(".", 1)[0] if "." in p else ""
            anc.append(p)
        for e in ev:
            if e["kind"] == "phase-begin" and e["phase"] == "start" and e["actor"] in anc:
                bad("fail-ancestor-started", f"start() of ancestor {e['actor']!r} was run although its descendant {fault['path']!r} failed")
        inc("ancestors_checked", len(anc))
    else:
        inc("timeout_runs")
        t_fail = float("inf") if timeout is None else float(timeout)
        if timeout is None:
            inc("runs_without_any_timeout_that_take_longer_than_the_default")
        if t_fail > sched["total"]:
            inc("timeout_not_expiring_runs")
            V2, c2 = check_success(run)
            for v in V2:
                v["key"] = "timeout-affected-startup[" + v["key"] + "]"
            return V + V2, {**c2, **c}
        inc("timeout_expiring_runs")
        exc = run.raised
        if exc is None:
            bad("timeout-not-raised", f"startup needs {sched['total']} virtual seconds, timeout {t_fail}, but start_component returned normally")
            return V, c
        if not isinstance(exc, TimeoutError):
            bad("timeout-wrong-exception", f"start_component raised {describe_exc(exc)} instead of TimeoutError")
        if raised_ev is not None and abs(raised_ev["vt"] - t_fail) > 1e-9:
            bad("timeout-time", f"TimeoutError raised at virtual time {raised_ev['vt']}, timeout was {t_fail}")
    # steps scheduled before the failure ran, steps scheduled after it did not
    done = {(e["actor"], e["phase"], e["idx"]) for e in ev if e["kind"] == "step"}
    if fault is None or fault["phase"] != "creating":
        for key, t in sched["steps"].items():
            if fault is not None and key[0] == fault["path"] and key[1] == fault["phase"] and key[2] >= fault["idx"]:
                if key in done:
                    bad("fail-step-after", f"step {key} of the failing phase ran after the failure point")
                continue
            if t < t_fail - 1e-9 and key not in done:
                # steps of phases that transitively depend on the failing phase having finished cannot have this time
                bad("fail-step-missing", f"step {key} scheduled at {t} < failure time {t_fail} did not run")
            elif t > t_fail + 1e-9 and key in done:
                bad("fail-sibling-continued", f"step {key} scheduled at {t} ran although start-up failed at {t_fail}")
            inc("steps_classified")
    else:
        if any(e["kind"] in ("phase-begin", "step") for e in ev):
            bad("fail-started-after-ctor-failure", "prepare()/start() code ran although a constructor failed")
    # nothing continues once start_component has raised
    if raised_ev is not None:
        stray = [e for e in ev if e["seq"] > raised_ev["seq"] and e["kind"] in ("ctor", "phase-begin", "step", "phase-end", "published", "wait-end", "phase-abort", "fail")]
        inc("windows_observed")
        if stray:
            bad("fail-work-after-raise", f"component code ran after start_component had raised: {stray[0]['kind']} of {stray[0]['actor']!r} at virtual time {stray[0]['vt']}")
    # what was registered before the failure stays owned by the caller's context
    pub = {e["rid"] for e in ev if e["kind"] == "published"}
    for rid in pub:
        r = tree["resources"][rid]
        if r["kind"] in ("factory", "afactory"):
            continue
        vis = run.visible_after.get(str(r["type"]), {})
        inc("ownership_checked")
        if vis.get(r["name"]) is not run.values.get(rid):
            bad("fail-ownership", f"resource r{rid} registered before the failure is no longer visible in the caller's context")
    V2, c2 = check_teardown(run)
    for v in V2:
        v["key"] = v["key"].replace("start-", "fail-")
    V.extend(V2)
    for k, v in c2.items():
        c[k] = c.get(k, 0) + v
    if run.left_exc is not None:
        bad("fail-left-raised", f"leaving the caller's context raised {describe_exc(run.left_exc)}")
    return V, c
