"""E5 - event histories (DESIGN.md section 2; serves C10).

A program = dispatcher tasks, subscriber tasks (stream_events with signal subsets, filters, queue
sizes, consumer styles) and wait_event callers over 1-3 instances of a class with 1-3 signals.
Every dispatched event carries a unique id; dispatch is synchronous, so the global sequence
numbers of the trace give a total order and the history is unambiguous.  ``check`` is the offline
trace specification of C10.
"""
from __future__ import annotations

import time
import warnings
from typing import Any

import anyio
from anyio import create_task_group
from anyio.lowlevel import checkpoint

import vkit  # noqa: F401
from vkit.trace import Trace, describe_exc
from vkit.vtime import VirtualDeadlock, run_virtual


def passes(flt: Any, n: int) -> bool:
    if flt is None or flt == "all":
        return True
    return n % flt["mod"] != flt["rem"]


# --------------------------------------------------------------------------- generation


def gen_steps(rng: Any, n: int) -> list[Any]:
    out = []
    for _ in range(n):
        out.append(rng.choice([["yield", rng.randint(1, 3)], ["sleep", rng.choice([0.5, 1, 2])], ["yield", 1]]))
    return out


def gen_program(rng: Any) -> dict[str, Any]:
    n_inst = rng.randint(1, 3)
    n_sig = rng.randint(1, 3)
    chans = [[i, f"s{j}"] for i in range(n_inst) for j in range(n_sig)]
    has_waiter = rng.random() < 0.4
    max_dispatch = 35 if has_waiter else rng.choice([10, 30, 80])
    tasks: list[dict[str, Any]] = []
    n_disp = rng.randint(1, 3)
    per = max(1, max_dispatch // n_disp)
    for _ in range(n_disp):
        steps = []
        for _ in range(rng.randint(1, per)):
            if rng.random() < 0.45:
                steps.append(rng.choice([["yield", rng.randint(1, 2)], ["sleep", rng.choice([0.5, 1])]]))
            burst = rng.choice([1, 1, 1, 2, 4])
            for _ in range(burst):
                steps.append(["dispatch", *rng.choice(chans)])
            if rng.random() < 0.06:
                # the owner instance is dropped and replaced by a fresh one (possibly at the same address) while
                # subscribers of the old instance may still be listening
                steps.append(["reincarnate", rng.randrange(n_inst)])
        tasks.append({"kind": "dispatcher", "steps": steps})
    for _ in range(rng.randint(1, 4)):
        sigs = rng.sample(chans, rng.randint(1, min(3, len(chans))))
        style_kind = rng.choice(["eager", "eager", "count", "slow", "raise", "cancel", "abandon", "linger"])
        style = {"kind": style_kind, "n": rng.randint(0, 6), "delay": rng.choice([0.5, 1, 3]), "yields": rng.randint(0, 2)}
        tasks.append({"kind": "subscriber", "start": gen_steps(rng, rng.randint(0, 3)), "signals": sigs,
                      "filter": rng.choice([None, "all", {"mod": 2, "rem": 0}, {"mod": 3, "rem": 1}]),
                      "q": rng.choice([0, 1, 2, 3, 5, 50]), "style": style, "falsy_filter": rng.random() < 0.3,
                      "via": "method" if len(sigs) == 1 and rng.random() < 0.6 else "function"})
    if has_waiter:
        for _ in range(rng.randint(1, 2)):
            sigs = rng.sample(chans, rng.randint(1, min(2, len(chans))))
            tasks.append({"kind": "waiter", "start": gen_steps(rng, rng.randint(0, 4)), "signals": sigs,
                          "filter": rng.choice([None, {"mod": 2, "rem": 0}, {"mod": 3, "rem": 1}]), "falsy_filter": rng.random() < 0.4,
                          "via": "method" if len(sigs) == 1 and rng.random() < 0.6 else "function"})
    for _ in range(rng.choice([0, 0, 1])):
        # a subscription attempt that must fail: a bound signal followed by an unbound (class-level) one
        tasks.append({"kind": "bad_subscriber", "start": gen_steps(rng, rng.randint(0, 3)), "signals": rng.sample(chans, rng.randint(1, min(2, len(chans)))),
                      "via": rng.choice(["stream", "wait"])})
    rng.shuffle(tasks)
    return {"backend": rng.choice(["asyncio", "trio"]), "sched_seed": rng.randrange(1 << 30), "shuffle": rng.random() < 0.5,
            "n_instances": n_inst, "n_signals": n_sig, "tasks": tasks,
            # owner instances that all compare (and hash) equal, like value objects / frozen dataclasses
            "equal_owners": rng.random() < 0.3, "copied_owners": rng.random() < 0.25, "falsy_owners": rng.random() < 0.2, "dataclass_events": rng.random() < 0.25, "held_emitters": rng.random() < 0.4,
            "falsy_events": rng.random() < 0.25}


# --------------------------------------------------------------------------- interpretation


def falsy_callable(fn: Any) -> Any:
    """a filter that is a callable *object* whose truth value is False (an allow-list that is a - currently empty - collection
    with a __call__): a filter all the same"""
    return type("AllowList", (), {"__call__": lambda self, ev: fn(ev), "__len__": lambda self: 0})()


class ConsumerFailure(Exception):
    pass


class FilterFailure(Exception):
    pass


class Run:
    def __init__(self, prog: dict[str, Any]) -> None:
        self.prog = prog
        self.trace = Trace()
        self.events: dict[int, Any] = {}
        self.next_eid = 0
        self.insts: list[Any] = []
        self.gens: list[int] = []
        self.abandoned: list[Any] = []
        self.held: dict[Any, Any] = {}
        self.crash: BaseException | None = None

    async def steps(self, steps: list[Any], actor: Any) -> None:
        from asphalt.core import SignalQueueFull

        for st in steps:
            if st[0] == "yield":
                for _ in range(st[1]):
                    await checkpoint()
            elif st[0] == "sleep":
                await anyio.sleep(st[1])
            elif st[0] == "reincarnate":
                import gc

                i = st[1]
                self.insts[i] = None
                gc.collect()
                self.insts[i] = self.Src()
                self.gens[i] += 1
                self.trace.log("reincarnate", actor, inst=i, gen=self.gens[i])
            else:
                _, i, a = st
                sig = getattr(self.insts[i], a)
                emit = sig.dispatch
                if self.prog.get("held_emitters"):
                    # the dispatcher keeps the bound method it obtained on its first dispatch on this channel (`emit = obj.sig.dispatch`):
                    # it stays the channel's dispatch however many subscribers have come and gone since
                    emit = self.held.setdefault((i, self.gens[i], a), emit)
                self.next_eid += 1
                ev = self.Ev(self.next_eid)
                self.events[ev.n] = id(ev)
                t0 = time.time()
                with warnings.catch_warnings(record=True) as w:
                    warnings.simplefilter("always")
                    self.trace.log("dispatch-call", actor, eid=ev.n, chan=(i, self.gens[i], a))
                    raised = None
                    ret = None
                    try:
                        ret = emit(ev)
                    except BaseException as e:
                        raised = e
                t1 = time.time()
                nwarn = sum(1 for x in w if issubclass(x.category, SignalQueueFull))
                ok_fields = ev.source is self.insts[i] and ev.topic == a and isinstance(getattr(ev, "time", None), float) and t0 - 1e-3 <= ev.time <= t1 + 1e-3
                self.trace.log("dispatch-ret", actor, eid=ev.n, nwarn=nwarn, raised=describe_exc(raised), ret=repr(ret) if ret is not None else None,
                               fields_ok=bool(ok_fields),
                               fields=None if ok_fields else {"source_is_instance": ev.source is self.insts[i], "topic": getattr(ev, "topic", None),
                                                              "time": getattr(ev, "time", None), "bracket": [t0, t1]})

    def signals(self, spec: list[Any]) -> list[Any]:
        return [getattr(self.insts[i], a) for i, a in spec]

    async def subscriber(self, sid: int, spec: dict[str, Any]) -> None:
        from asphalt.core import stream_events

        await self.steps(spec["start"], f"sub{sid}")
        sigs = self.signals(spec["signals"])
        flt = spec["filter"]

        pulls = [0]

        def filt(ev: Any) -> bool:
            pulls[0] += 1
            if spec["style"]["kind"] == "linger" and pulls[0] > spec["style"]["n"]:
                # ends the iterator; the consumer catches it and stays in its block (the event is lost with the iterator: not a "pull")
                self.trace.log("pull-failed", sid, eid=ev.n)
                raise FilterFailure("the filter failed")
            self.trace.log("pull", sid, eid=ev.n)
            return passes(flt, ev.n)

        f = None if flt is None else (falsy_callable(filt) if spec.get("falsy_filter") else filt)
        style = spec["style"]
        my_chans = [(i, self.gens[i], a) for i, a in spec["signals"]]
        self.trace.log("sub-enter-call", sid)
        if style["kind"] == "abandon":
            # a subscriber that is simply "gone": the stream is entered by hand, a few events are pulled and then the
            # task ends without ever leaving the stream (references are dropped; finalisation is up to the event loop)
            cm = sigs[0].stream_events(f, max_queue_size=spec["q"]) if spec["via"] == "method" else stream_events(sigs, f, max_queue_size=spec["q"])
            stream = await cm.__aenter__()
            self.trace.log("sub-entered", sid, chans=my_chans)
            n = 0
            while n < style["n"]:
                ev = await stream.__anext__()
                self.trace.log("yield", sid, eid=ev.n)
                n += 1
            self.abandoned.append((cm, stream))  # kept alive until the end of the history: still subscribed, never read again
            self.trace.log("sub-abandoned", sid)
            return
        try:
            cm = sigs[0].stream_events(f, max_queue_size=spec["q"]) if spec["via"] == "method" else stream_events(sigs, f, max_queue_size=spec["q"])
            async with cm as stream:
                self.trace.log("sub-entered", sid, chans=my_chans)
                try:
                    count = 0
                    if style["kind"] == "count" and style["n"] == 0:
                        pass
                    else:
                        async for ev in stream:
                            self.trace.log("yield", sid, eid=ev.n)
                            count += 1
                            for _ in range(style["yields"]):
                                await checkpoint()
                            if style["kind"] == "slow":
                                await anyio.sleep(style["delay"])
                            if style["kind"] == "count" and count >= style["n"]:
                                break
                            if style["kind"] == "linger" and flt is None and count >= style["n"]:
                                break
                            if style["kind"] == "raise" and count >= max(1, style["n"]):
                                raise ConsumerFailure("consumer failed")
                    if style["kind"] == "linger":
                        await self.linger(sid, stream, style)
                    self.trace.log("sub-exit-begin", sid, how="normal")
                except FilterFailure:
                    # the iterator is over (its filter raised), the consumer is not: it stays in the block for a while
                    await self.linger(sid, None, style)
                    self.trace.log("sub-exit-begin", sid, how="normal")
                except BaseException as e:
                    self.trace.log("sub-exit-begin", sid, how=describe_exc(e))
                    raise
        except ConsumerFailure:
            pass
        finally:
            self.trace.log("sub-exited", sid)

    async def linger(self, sid: int, stream: Any, style: dict[str, Any]) -> None:
        """a consumer that is done with its iterator (closed it, or its filter raised) but has not left the `async with` block
        yet: it is still a subscriber of a sort, and dispatching must not care"""
        if stream is not None:
            await stream.aclose()
        self.trace.log("sub-lingering", sid)
        await anyio.sleep(style["delay"])

    async def bad_subscriber(self, bid: int, spec: dict[str, Any]) -> None:
        from asphalt.core import UnboundSignal, stream_events, wait_event

        await self.steps(spec["start"], f"bad{bid}")
        sigs = self.signals(spec["signals"]) + [getattr(self.Src, "s0")]  # the last one is the class-level declaration
        try:
            if spec["via"] == "stream":
                async with stream_events(sigs):
                    pass
            else:
                with anyio.move_on_after(1):
                    await wait_event(sigs)
            self.trace.log("bad-subscribe", bid, outcome="accepted")
        except UnboundSignal:
            self.trace.log("bad-subscribe", bid, outcome="UnboundSignal")
        except Exception as e:
            self.trace.log("bad-subscribe", bid, outcome=describe_exc(e))

    async def relay_phase(self) -> None:
        """an event object that has already been dispatched once is dispatched again on another channel (a relay):
        the second channel's subscriber must see it stamped with the second channel's instance and attribute"""
        # two fresh owner instances nobody else listens to (so the histories above are not disturbed)
        a_inst, b_inst = self.Src(), self.Src()
        a_name, b_name = "s0", f"s{self.prog['n_signals'] - 1}"
        sig_a, sig_b = getattr(a_inst, a_name), getattr(b_inst, b_name)
        if sig_a is sig_b:
            self.trace.log("relay", "driver", problem="the two channels of the relay are one bound signal")
            return
        ev = self.Ev(-1)
        seen: list[Any] = []
        async with sig_b.stream_events(max_queue_size=10) as stream_b:
            sig_a.dispatch(ev)
            first = (ev.source is a_inst, ev.topic)
            sig_b.dispatch(ev)
            with anyio.move_on_after(5):
                got = await stream_b.__anext__()
                seen.append((got is ev, got.source is b_inst, got.topic))
        self.trace.log("relay", "driver", first_ok=bool(first == (True, a_name)), seen=seen, expect_topic=b_name)

    async def waiter(self, wid: int, spec: dict[str, Any]) -> None:
        from asphalt.core import wait_event

        await self.steps(spec["start"], f"wait{wid}")
        sigs = self.signals(spec["signals"])
        flt = spec["filter"]
        f = None if flt is None else (lambda ev: passes(flt, ev.n))
        if f is not None and spec.get("falsy_filter"):
            f = falsy_callable(f)
        self.trace.log("wait-begin", wid, chans=[(i, self.gens[i], a) for i, a in spec["signals"]])
        try:
            ev = await (sigs[0].wait_event(f) if spec["via"] == "method" else wait_event(sigs, f))
        except BaseException as e:
            self.trace.log("wait-end", wid, how=describe_exc(e))
            raise
        self.trace.log("wait-return", wid, eid=getattr(ev, "n", None), known=id(ev) == self.events.get(getattr(ev, "n", None)))

    async def main(self) -> None:
        from asphalt.core import Event, Signal

        prog = self.prog

        class Ev(Event):
            __slots__ = ("n",)

            def __init__(self, n: int) -> None:
                self.n = n

        if prog.get("dataclass_events"):
            # events declared as dataclasses (as in the user guide): they compare by value - here every event equals every other -
            # and are unhashable; each dispatched object is still an event of its own
            from dataclasses import dataclass, field

            @dataclass
            class Ev(Event):  # type: ignore[no-redef]  # noqa: F811
                n: int = field(compare=False)
                kind: str = "same"

        if prog.get("falsy_events"):
            # events that are falsy objects (a batch notification whose payload happens to be empty): events all the same
            Ev = type("Ev", (Ev,), {"__bool__": lambda self: False})  # type: ignore[misc]

        self.Ev = Ev
        ns: dict[str, Any] = {f"s{j}": Signal(Ev) for j in range(prog["n_signals"])}
        if prog.get("equal_owners"):
            ns["__eq__"] = lambda a, b: type(a) is type(b)
            ns["__hash__"] = lambda a: 7
        if prog.get("falsy_owners"):
            ns["__len__"] = lambda a: 0  # an owner that is an empty container right now
        Src = type("Src", (), ns)
        for name in [f"s{j}" for j in range(prog["n_signals"])]:
            getattr(Src, name).__set_name__(Src, name)
        self.Src = Src
        self.insts = [Src() for _ in range(prog["n_instances"])]
        if prog.get("copied_owners") and prog["n_instances"] >= 2:
            # the second owner is a shallow copy of the first, made after all its signals were used once (whatever a binding
            # leaves on the instance travels with the copy); it is an owner of its own all the same
            import copy

            for name in [f"s{j}" for j in range(prog["n_signals"])]:
                getattr(self.insts[0], name)
            self.insts[1] = copy.copy(self.insts[0])
        self.gens = [0] * prog["n_instances"]
        cancel_scopes: dict[int, anyio.CancelScope] = {}
        try:
            async with create_task_group() as consumers:
                async with create_task_group() as dispatchers:
                    for k, t in enumerate(prog["tasks"]):
                        if t["kind"] == "dispatcher":
                            dispatchers.start_soon(self.steps, t["steps"], f"disp{k}")
                        elif t["kind"] == "subscriber":
                            scope = anyio.CancelScope()
                            cancel_scopes[k] = scope

                            async def run_sub(k: int = k, t: Any = t, scope: Any = scope) -> None:
                                with scope:
                                    await self.subscriber(k, t)

                            consumers.start_soon(run_sub)
                        elif t["kind"] == "bad_subscriber":
                            dispatchers.start_soon(self.bad_subscriber, k, t)
                        else:
                            consumers.start_soon(self.waiter, k, t)
                    # subscribers of style "cancel" are cancelled mid-history
                    for k, t in enumerate(prog["tasks"]):
                        if t["kind"] == "subscriber" and t["style"]["kind"] == "cancel":
                            async def canceller(k: int = k, t: Any = t) -> None:
                                await anyio.sleep(t["style"]["delay"] * (1 + t["style"]["n"]))
                                self.trace.log("cancel-sub", k)
                                cancel_scopes[k].cancel()

                            dispatchers.start_soon(canceller)
                await anyio.wait_all_tasks_blocked()
                # slow consumers may still be sleeping: let them finish what they hold (bounded)
                for _ in range(400):
                    before = len(self.trace)
                    await anyio.sleep(5)
                    await anyio.wait_all_tasks_blocked()
                    if len(self.trace) == before:
                        break
                await self.relay_phase()
                self.trace.log("final-cancel", "driver")
                consumers.cancel_scope.cancel()
            for cm, _stream in self.abandoned:
                try:
                    await cm.__aexit__(None, None, None)
                except BaseException:
                    pass
        except BaseException as e:
            self.crash = e
            self.trace.log("crash", "driver", exc=describe_exc(e))


def execute(prog: dict[str, Any]) -> Run:
    run = Run(prog)
    try:
        run_virtual(prog["backend"], run.main, sched_seed=prog["sched_seed"], shuffle=prog["shuffle"])
    except VirtualDeadlock as e:
        run.crash = e
        run.trace.log("crash", "driver", exc=describe_exc(e))
    return run


# --------------------------------------------------------------------------- oracle


def check(run: Run) -> tuple[list[dict[str, Any]], dict[str, int]]:
    prog = run.prog
    tr = run.trace
    V: list[dict[str, Any]] = []
    c: dict[str, int] = {}

    def inc(k: str, n: int = 1) -> None:
        c[k] = c.get(k, 0) + n

    def bad(key: str, msg: str, **w: Any) -> None:
        if len(V) < 6:
            V.append({"key": key, "msg": msg, "witness": {**w, "program": prog, "trace": tr.compact(120)}})

    if run.crash is not None:
        bad("events-crash", f"the history did not complete: {describe_exc(run.crash)}")
        return V, c
    dispatches = [e for e in tr.events if e["kind"] == "dispatch-call"]
    rets = {e["eid"]: e for e in tr.events if e["kind"] == "dispatch-ret"}
    disp_seq = {e["eid"]: e["seq"] for e in dispatches}
    chan_of = {e["eid"]: tuple(e["chan"]) for e in dispatches}
    inc("dispatches", len(dispatches))
    final_cancel = next((e["seq"] for e in tr.events if e["kind"] == "final-cancel"), 1 << 60)
    for d in dispatches:
        r = rets.get(d["eid"])
        if r is None:
            bad("events-dispatch-incomplete", f"dispatch of event {d['eid']} never returned")
            continue
        if r["seq"] != d["seq"] + 1 and any(e["kind"] not in ("pull", "yield") for e in tr.events[d["seq"] + 1:r["seq"]]):
            pass
        if r["raised"]:
            bad("events-dispatch-raised", f"dispatch of event {d['eid']} raised {r['raised']}")
        if r["ret"] is not None:
            bad("events-dispatch-returned", f"dispatch returned {r['ret']}")
        if not r["fields_ok"]:
            bad("events-stamp", f"event {d['eid']} wrongly stamped: {r['fields']}")
    known_drops: dict[int, int] = {}
    unknown: dict[int, int] = {}
    subs = [(k, t) for k, t in enumerate(prog["tasks"]) if t["kind"] == "subscriber"]
    active_subs = 0
    for sid, spec in subs:
        ev_s = [e for e in tr.events if e["actor"] == sid and e["kind"] in ("sub-entered", "sub-exit-begin", "pull", "yield", "sub-exited")]
        entered_ev = next((e for e in ev_s if e["kind"] == "sub-entered"), None)
        if entered_ev is None:
            continue
        entered = entered_ev["seq"]
        active_subs += 1
        exit_begin = next((e["seq"] for e in ev_s if e["kind"] == "sub-exit-begin"), 1 << 60)
        chans = {tuple(x) for x in entered_ev["chans"]}
        W = [d["eid"] for d in dispatches if chan_of[d["eid"]] in chans and entered < d["seq"] < exit_begin]
        Wset = set(W)
        flt = spec["filter"]
        seen_kind = "pull" if flt is not None else "yield"
        seen = [(e["eid"], e["seq"]) for e in ev_s if e["kind"] == seen_kind]
        yielded = [e["eid"] for e in ev_s if e["kind"] == "yield"]
        seen_ids = [x for x, _ in seen]
        inc("subscriber_windows")
        inc("events_in_windows", len(W))
        # 1. no foreign, no duplicate, order preserved
        if len(set(seen_ids)) != len(seen_ids):
            dup = [x for x in seen_ids if seen_ids.count(x) > 1]
            bad("events-duplicate", f"subscriber {sid} received event(s) {sorted(set(dup))} more than once", subscriber=spec)
            continue
        foreign = [x for x in seen_ids if x not in Wset]
        if foreign:
            why = []
            for x in foreign[:3]:
                if chan_of.get(x) not in chans:
                    why.append(f"{x}: dispatched on channel {chan_of.get(x)}, subscribed to {sorted(chans)}")
                else:
                    why.append(f"{x}: dispatched at seq {disp_seq[x]}, outside the subscription window ({entered}, {exit_begin})")
            bad("events-foreign", f"subscriber {sid} received event(s) it must not see: {why}", subscriber=spec)
            continue
        pos = {x: i for i, x in enumerate(W)}
        if any(pos[a] > pos[b] for a, b in zip(seen_ids, seen_ids[1:])):
            bad("events-order", f"subscriber {sid} received events out of dispatch order: {seen_ids} vs dispatched {W}", subscriber=spec)
            continue
        # 2. exactly the events that pass the filter are yielded
        exp_y = [x for x in seen_ids if passes(flt, x)]
        if yielded != exp_y:
            bad("events-filter", f"subscriber {sid}: yielded {yielded} but the events it pulled that pass its filter are {exp_y}", subscriber=spec)
        inc("events_delivered", len(yielded))
        # 3/4. drops vs. queue occupancy
        drained = spec["style"]["kind"] == "eager" and exit_begin > final_cancel
        last_seen_pos = max((pos[x] for x in seen_ids), default=-1)
        pulled_seqs = [s for _, s in seen]
        seen_set = set(seen_ids)
        accepted = 0
        q = spec["q"]
        for i, eid in enumerate(W):
            determinable = drained or i <= last_seen_pos
            if not determinable:
                unknown[eid] = unknown.get(eid, 0) + 1
                continue
            dseq = disp_seq[eid]
            pulled = sum(1 for s in pulled_seqs if s < dseq)
            backlog = accepted - pulled
            if eid in seen_set:
                accepted += 1
                if backlog > q:
                    bad("events-overflow-not-dropped", f"subscriber {sid} (max_queue_size={q}) accepted event {eid} although {backlog} accepted events "
                                                       f"had not yet been pulled", subscriber=spec)
                inc("accepted_checked")
            else:
                known_drops[eid] = known_drops.get(eid, 0) + 1
                inc("drops_observed")
                if backlog < q:
                    bad("events-lost", f"subscriber {sid} (max_queue_size={q}) never received event {eid} although only {backlog} accepted events "
                                       f"were waiting in its queue when it was dispatched", subscriber=spec, window=W, seen=seen_ids)
        if drained:
            inc("drained_subscribers")
    # 5. warnings == drops
    for d in dispatches:
        r = rets.get(d["eid"])
        if r is None:
            continue
        lo = known_drops.get(d["eid"], 0)
        hi = lo + unknown.get(d["eid"], 0)
        if not lo <= r["nwarn"] <= hi:
            bad("events-warning-count", f"dispatch of event {d['eid']} issued {r['nwarn']} SignalQueueFull warning(s) but {lo}"
                                        f"{'' if hi == lo else '..' + str(hi)} subscriber(s) lost it")
        if r["nwarn"]:
            inc("dispatches_with_overflow_warning")
    # 6. wait_event
    for wid, spec in [(k, t) for k, t in enumerate(prog["tasks"]) if t["kind"] == "waiter"]:
        begin_ev = next((e for e in tr.events if e["actor"] == wid and e["kind"] == "wait-begin"), None)
        if begin_ev is None:
            continue
        begin = begin_ev["seq"]
        chans = {tuple(x) for x in begin_ev["chans"]}
        cands = [d["eid"] for d in dispatches if d["seq"] > begin and chan_of[d["eid"]] in chans and passes(spec["filter"], d["eid"])]
        ret = next((e for e in tr.events if e["actor"] == wid and e["kind"] == "wait-return"), None)
        inc("wait_event_calls")
        if cands:
            inc("wait_event_with_match")
            if ret is None:
                bad("events-wait-missed", f"wait_event caller {wid} never returned although event {cands[0]} matched after its call began", waiter=spec)
            elif ret["eid"] != cands[0] or not ret["known"]:
                bad("events-wait-wrong", f"wait_event caller {wid} returned event {ret['eid']} but the first matching event dispatched after the call began is {cands[0]}", waiter=spec)
            elif ret["seq"] < disp_seq[cands[0]]:
                bad("events-wait-wrong", "wait_event returned before the event was dispatched")
        elif ret is not None:
            bad("events-wait-wrong", f"wait_event caller {wid} returned event {ret['eid']} although no matching event was dispatched after its call began", waiter=spec)
    for e in tr.events:
        if e["kind"] == "bad-subscribe":
            inc("failed_subscription_attempts")
            if e["outcome"] != "UnboundSignal":
                bad("events-unbound-subscribe", f"subscribing to a list that contains an unbound signal: {e['outcome']} (expected UnboundSignal)")
        elif e["kind"] == "relay":
            inc("relayed_events")
            if e.get("problem"):
                bad("events-relay", e["problem"])
            elif not e["first_ok"] or e["seen"] != [(True, True, e["expect_topic"])]:
                bad("events-stamp", f"an event dispatched a second time on another channel was received there as {e['seen']} "
                                    f"(expected the same object stamped with that channel's instance and topic {e['expect_topic']!r})")
    if prog.get("equal_owners") and prog["n_instances"] >= 2:
        inc("histories_with_equal_owners")
    if prog.get("copied_owners") and prog["n_instances"] >= 2:
        inc("histories_with_a_copied_owner")
    if prog.get("falsy_owners"):
        inc("histories_with_falsy_owners")
    if prog.get("falsy_events"):
        inc("histories_with_falsy_events")
    if prog.get("held_emitters"):
        inc("histories_whose_dispatchers_keep_the_bound_dispatch_method")
    if prog.get("dataclass_events"):
        inc("histories_with_value_equal_unhashable_events")
    if active_subs >= 2:
        inc("histories_with_2plus_subscribers")
    if any(t["kind"] == "subscriber" and t["style"]["kind"] == "abandon" for t in prog["tasks"]):
        inc("histories_with_abandoned_subscriber")
    if any(t["kind"] == "subscriber" and t["style"]["kind"] in ("count", "raise", "cancel") for t in prog["tasks"]):
        inc("histories_with_leaving_subscriber")
    n_linger = sum(1 for e in tr.events if e["kind"] == "sub-lingering")
    if n_linger:
        inc("subscribers_lingering_in_their_block_after_their_iterator_ended", n_linger)
    inc(f"backend_{prog['backend']}")
    if any(e["kind"] == "reincarnate" for e in tr.events):
        inc("histories_with_owner_replaced")
    return V, c
