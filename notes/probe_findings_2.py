import anyio, warnings, sys
from contextlib import AsyncExitStack
from asphalt.core import *
from asphalt.core import Context

async def c01_excinfo():
    got = []
    # clean exit inside an except handler
    try:
        raise ValueError("outer")
    except ValueError:
        async with Context() as ctx:
            ctx.add_teardown_callback(lambda e: got.append(("in-except-clean", e)), pass_exception=True)
    # block exception delivered via AsyncExitStack after a later-registered exit raised
    class Boom:
        async def __aenter__(self): return self
        async def __aexit__(self, *a): raise RuntimeError("later exit failed")
    try:
        async with AsyncExitStack() as st:
            ctx = await st.enter_async_context(Context())
            ctx.add_teardown_callback(lambda e: got.append(("stack-exc", e)), pass_exception=True)
            await st.enter_async_context(Boom())
    except RuntimeError:
        pass
    # manual __aexit__ call with an exception outside handler
    ctx = Context()
    await ctx.__aenter__()
    ctx.add_teardown_callback(lambda e: got.append(("manual", e)), pass_exception=True)
    err = KeyError("x")
    try:
        await ctx.__aexit__(KeyError, err, None)
    except KeyError:
        pass
    print("C01 exc_info:", got)

async def c06_burst(n):
    class Pub(Component):
        async def start(self):
            await anyio.sleep(0.01)
            for i in range(n):
                add_resource(i, f"n{i}")
            add_resource("wanted", "target")
    class Waiter(Component):
        async def start(self):
            self.got = await get_resource(str, "target")
    class Root(Component):
        def __init__(self):
            self.add_component("w", Waiter); self.add_component("p", Pub)
    with warnings.catch_warnings(record=True) as w:
        warnings.simplefilter("always")
        try:
            async with Context():
                await start_component(Root, timeout=0.5)
            print("C06 burst", n, "ok; warnings:", len(w))
        except TimeoutError:
            print("C06 burst", n, "TIMEOUT (lost wake-up); warnings:", len(w))

async def c09_stale():
    async with Context():
        f = await start_background_task_factory()
    async def t(): pass
    try:
        f.start_task_soon(t)
    except BaseException as e:
        print("C09 start_task_soon after close raised", type(e).__name__, "handles:", len(f.all_task_handles()))
    else:
        print("C09 start_task_soon after close did not raise; handles", len(f.all_task_handles()))

async def c01_cancel():
    log = []
    async def acb():
        log.append("a-begin")
        try:
            await anyio.sleep(0.01)
            log.append("a-end")
        except BaseException as e:
            log.append(("a-exc", type(e).__name__)); raise
    try:
        with anyio.CancelScope() as scope:
            async with Context() as ctx:
                ctx.add_teardown_callback(lambda e: log.append(("first-registered", type(e).__name__)), True)
                ctx.add_teardown_callback(acb)
                ctx.add_teardown_callback(lambda: log.append("last-registered"))
                scope.cancel()
                await anyio.sleep(1)
        print("C01 cancel: outcome clean, closed:", ctx.closed, log)
    except BaseException as e:
        print("C01 cancel: raised", repr(e), log)

async def main():
    await c01_excinfo(); await c06_burst(10); await c06_burst(60); await c09_stale(); await c01_cancel()

for b in ("asyncio", "trio"):
    print("==", b); anyio.run(main, backend=b)
