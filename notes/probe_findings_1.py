import anyio, gc, warnings
from dataclasses import dataclass
from asphalt.core import *
from asphalt.core import Context

async def c04_leak():
    calls = []
    async def afactory():
        calls.append(1); return object()
    def sfactory():
        calls.append(1); return [len(calls)]
    async with Context() as root:
        root.add_resource_factory(afactory, types=[object])
        root.add_resource_factory(sfactory, types=[list])
        async with Context() as mid:
            o = await mid.get_resource(object)
            l = await mid.get_resource(list)   # async API on sync factory
            async with Context() as leaf:
                o2 = await leaf.get_resource(object)
                l2 = leaf.get_resource_nowait(list)
                print("C04 leak async-factory: same obj in child:", o2 is o, "; sync factory via async API:", l2 is l)

async def c04_race(backend):
    calls = []
    async def afactory():
        calls.append(1)
        await anyio.sleep(0)
        return object()
    got = []
    async with Context() as ctx:
        ctx.add_resource_factory(afactory, types=[object])
        async def look():
            got.append(await ctx.get_resource(object))
        async with anyio.create_task_group() as tg:
            for _ in range(3): tg.start_soon(look)
        later = await ctx.get_resource(object)
        print("C04 race", backend, "factory calls:", len(calls), "distinct:", len({id(x) for x in got}), "later is first?", later is got[0])

async def c03_overwrite():
    async with Context() as ctx:
        ctx.add_resource(5)
        ctx.add_resource_factory(lambda: "gen", types=[int, str])
        a = ctx.get_resource_nowait(int)
        s = ctx.get_resource_nowait(str)
        b = ctx.get_resource_nowait(int)
        print("C03 overwrite: before", a, "after", b)

async def c03_td():
    async with Context() as ctx:
        try:
            ctx.add_resource(5, teardown_callback="notcallable")
        except TypeError as e:
            print("C03 TypeError raised; still registered:", ctx.get_resource_nowait(int, optional=True))

async def c11():
    class E2(Event): pass
    class Src:
        a = Signal(Event)
        b = Signal(E2)
    s = Src()
    print("C11 same bound signal for a and b:", s.a is s.b, s.b._topic, s.b.event_class)
    @dataclass(frozen=True)
    class V:
        x: int
        sig = Signal(Event)
    v1, v2 = V(1), V(1)
    print("C11 equal instances share:", v1.sig is v2.sig)

async def c14():
    seen = []
    class Child(Component):
        def __init__(self, **kw): seen.append(kw)
    class Root(Component):
        pass
    cfg = {"components": {"child": {"type": Child, "a": 1, "components": {"g": {"type": Child}}}}}
    import copy
    before = copy.deepcopy(cfg)
    async with Context():
        await start_component(Root, cfg)
    print("C14 config unchanged:", cfg == before, cfg)

async def main(backend):
    await c04_leak(); await c04_race(backend); await c03_overwrite(); await c03_td(); await c11(); await c14()

for b in ("asyncio", "trio"):
    anyio.run(main, b, backend=b)
