import sys

from vkit.harness import worker_main

if __name__ == "__main__":
    sys.exit(worker_main(sys.argv[1:]))
