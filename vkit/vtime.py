"""Virtual time on both anyio backends (DESIGN.md 1.2) and seeded trio scheduling (1.3).

* asyncio: a SelectorEventLoop whose clock only moves when the loop would otherwise sleep.
* trio:    trio.testing.MockClock(autojump_threshold=0).

``run_virtual`` runs one case in its own event loop.  A watchdog scope with a huge *virtual*
deadline turns "everything is blocked for ever" into ``VirtualDeadlock`` deterministically and
in microseconds of wall-clock time on both backends.
"""
from __future__ import annotations

import asyncio
import heapq
from typing import Any, Awaitable, Callable

import anyio

WATCHDOG = 1.0e7  # virtual seconds


class VirtualDeadlock(Exception):
    """All tasks of the case were blocked with nothing but the watchdog scheduled."""


class VirtualLoop(asyncio.SelectorEventLoop):
    def __init__(self) -> None:
        super().__init__()
        self._vtime = 0.0
        real_select = self._selector.select

        def select(timeout: float | None = None) -> Any:
            events = real_select(0)
            if events or timeout is None or timeout <= 0:
                if not events and timeout is None:
                    # nothing ready, nothing scheduled and no I/O: a real loop would hang
                    raise VirtualDeadlock("asyncio loop would block for ever")
                return events
            # jump exactly to the next timer (no float drift), capped like asyncio does
            sched = self._scheduled
            target = self._vtime + timeout
            if sched:
                when = sched[0]._when
                if when <= target + 1e-6:
                    target = max(self._vtime, when)
            self._vtime = target
            return events

        self._selector.select = select  # type: ignore[method-assign]

    def time(self) -> float:
        return self._vtime


def _seed_trio(seed: int, shuffle: bool) -> None:
    import trio._core._run as tr

    tr._r.seed(seed)
    tr._ALLOW_DETERMINISTIC_SCHEDULING = shuffle  # type: ignore[misc]


def backend_options(backend: str) -> dict[str, Any]:
    if backend == "trio":
        import trio.testing

        return {"clock": trio.testing.MockClock(autojump_threshold=0)}
    return {"loop_factory": VirtualLoop}


def run_virtual(
    backend: str,
    fn: Callable[..., Awaitable[Any]],
    *args: Any,
    sched_seed: int = 0,
    shuffle: bool = False,
    watchdog: float = WATCHDOG,
) -> Any:
    """Run ``fn(*args)`` in a fresh event loop of ``backend`` under virtual time."""

    async def wrapper() -> Any:
        with anyio.move_on_after(watchdog) as scope:
            return await fn(*args)
        if scope.cancelled_caught:
            raise VirtualDeadlock(f"case still blocked after {watchdog} virtual seconds")

    if backend == "trio":
        _seed_trio(sched_seed, shuffle)
    return anyio.run(wrapper, backend=backend, backend_options=backend_options(backend))


def now() -> float:
    return anyio.current_time()
