"""Virtual time on both anyio backends (DESIGN.md 1.2) and seeded trio scheduling (1.3).

* asyncio: a SelectorEventLoop whose clock only moves when the loop would otherwise sleep.
* trio:    trio.testing.MockClock(autojump_threshold=0).

``run_virtual`` runs one case in its own event loop.  A watchdog scope with a huge *virtual*
deadline turns "everything is blocked for ever" into ``VirtualDeadlock`` deterministically and
in microseconds of wall-clock time on both backends.
"""
from __future__ import annotations

import asyncio
import heapq
from typing import Any, Awaitable, Callable

import anyio

WATCHDOG = 1.0e7  # virtual seconds
LIVELOCK_POLLS = 5000  # consecutive busy loop iterations after which virtual time is advanced anyway


class VirtualDeadlock(Exception):
    """All tasks of the case were blocked with nothing but the watchdog scheduled."""


class VirtualLoop(asyncio.SelectorEventLoop):
    def __init__(self) -> None:
        super().__init__()
        self._vtime = 0.0
        real_select = self._selector.select

        self._busy_polls = 0

        def select(timeout: float | None = None) -> Any:
            events = real_select(0)
            if events or timeout is None or timeout <= 0:
                if not events and timeout is None:
                    # nothing ready, nothing scheduled and no I/O: a real loop would hang
                    raise VirtualDeadlock("asyncio loop would block for ever")
                if not events and timeout is not None and self._scheduled:
                    # The loop is busy (ready callbacks every iteration) while timers are pending - e.g. anyio
                    # re-delivering a cancellation to a shielded task with call_soon().  On a real clock time
                    # passes while it spins; emulate that, or virtual time would never reach the timers.
                    self._busy_polls += 1
                    if self._busy_polls >= LIVELOCK_POLLS:
                        self._busy_polls = 0
                        self._vtime = max(self._vtime, self._scheduled[0]._when)
                return events
            self._busy_polls = 0
            # jump exactly to the next timer (no float drift), capped like asyncio does
            sched = self._scheduled
            if sched and sched[0]._when == float("inf"):
                # the only timers left are sleep_forever() ones: nothing can ever wake the loop up
                raise VirtualDeadlock("asyncio loop would block for ever (only infinite timers are scheduled)")
            target = self._vtime + timeout
            if sched:
                when = sched[0]._when
                if when <= target + 1e-6:
                    target = max(self._vtime, when)
            self._vtime = target
            return events

        self._selector.select = select  # type: ignore[method-assign]

    def time(self) -> float:
        return self._vtime


def _seed_trio(seed: int, shuffle: bool) -> None:
    import trio._core._run as tr

    tr._r.seed(seed)
    tr._ALLOW_DETERMINISTIC_SCHEDULING = shuffle  # type: ignore[misc]


def _make_trio_clock() -> Any:
    import trio.lowlevel
    import trio.testing

    # MockClock is final: patch the hook the run loop calls on the *instance*.  It turns 'every task is blocked
    # and there is no deadline left' - which not even the watchdog's cancellation can break when the blocked
    # task is shielded - into VirtualDeadlock instead of spinning for ever.
    clock = trio.testing.MockClock(autojump_threshold=0)
    state = {"idle": 0}

    def _autojump() -> None:
        stats = trio.lowlevel.current_statistics()
        jump = stats.seconds_to_next_deadline
        if 0 < jump < float("inf"):
            state["idle"] = 0
            clock.jump(jump)
        elif jump == float("inf") and stats.tasks_runnable == 0 and stats.run_sync_soon_queue_size == 0:
            state["idle"] += 1
            if state["idle"] > 50:
                raise VirtualDeadlock("trio: every task is blocked and no deadline is pending")

    clock._autojump = _autojump  # type: ignore[method-assign]
    return clock


def backend_options(backend: str) -> dict[str, Any]:
    if backend == "trio":
        return {"clock": _make_trio_clock()}
    return {"loop_factory": VirtualLoop}


def run_virtual(
    backend: str,
    fn: Callable[..., Awaitable[Any]],
    *args: Any,
    sched_seed: int = 0,
    shuffle: bool = False,
    watchdog: float = WATCHDOG,
) -> Any:
    """Run ``fn(*args)`` in a fresh event loop of ``backend`` under virtual time."""

    async def wrapper() -> Any:
        result = None
        with anyio.move_on_after(watchdog) as scope:
            result = await fn(*args)
        if scope.cancel_called:  # the deadline passed (even if the case swallowed the cancellation)
            raise VirtualDeadlock(f"case still blocked after {watchdog} virtual seconds")
        return result

    if backend == "trio":
        import trio

        _seed_trio(sched_seed, shuffle)
        try:
            return anyio.run(wrapper, backend=backend, backend_options=backend_options(backend))
        except trio.TrioInternalError as e:
            if isinstance(e.__cause__, VirtualDeadlock):
                raise e.__cause__ from None
            raise
    return anyio.run(wrapper, backend=backend, backend_options=backend_options(backend))


def now() -> float:
    return anyio.current_time()
