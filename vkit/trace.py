"""Event trace shared by the probes, boundary recorders and offline checkers (DESIGN.md 1.5)."""
from __future__ import annotations

from typing import Any

import anyio


class Trace:
    """Append-only log.  Every event: (seq, virtual time, task id, kind, actor, data)."""

    def __init__(self) -> None:
        self.events: list[dict[str, Any]] = []
        self.t0: float | None = None

    def log(self, kind: str, actor: Any = None, **data: Any) -> dict[str, Any]:
        try:
            t = anyio.current_time()
            if self.t0 is None:
                self.t0 = t
            t -= self.t0
            task = anyio.get_current_task().id
        except Exception:
            t, task = None, None
        ev = {"seq": len(self.events), "t": t, "task": task, "kind": kind, "actor": actor, **data}
        self.events.append(ev)
        return ev

    def __len__(self) -> int:
        return len(self.events)

    def of(self, *kinds: str) -> list[dict[str, Any]]:
        return [e for e in self.events if e["kind"] in kinds]

    def signature(self) -> tuple[Any, ...]:
        """interleaving signature: the sequence of (actor, kind) pairs"""
        return tuple((e["actor"], e["kind"]) for e in self.events)

    def compact(self, limit: int = 60) -> list[str]:
        out = []
        for e in self.events[:limit]:
            extra = {k: v for k, v in e.items() if k not in ("seq", "t", "task", "kind", "actor")}
            out.append(f"{e['seq']}@{e['t']}: {e['kind']} {e['actor']} {extra if extra else ''}".rstrip())
        if len(self.events) > limit:
            out.append(f"... {len(self.events) - limit} more")
        return out


class CustomError(Exception):
    pass


class BaseCustom(BaseException):
    pass


def _unprintable(self: Any) -> str:
    raise TypeError("this exception cannot be printed (its message needs an attribute that was never set)")


# an application exception whose str() raises (a half-initialised exception object, a __str__ returning a non-string): for the
# library it is an exception like any other; isinstance() and the class name are those of its base.  (repr() is left alone:
# trio itself formats `{exc!r}` when a nursery block ends with an exception, so an exception whose repr() raises breaks the
# backend, not asphalt.)
UnprintableCustom = type("CustomError", (CustomError,), {"__str__": _unprintable, "__module__": __name__})


def safe_repr(obj: Any) -> str:
    try:
        return repr(obj)
    except Exception:
        return f"<{type(obj).__name__} object whose repr() raises>"


class FrozenError(CustomError):
    """an exception whose instances reject attribute assignment (what a `@dataclass(frozen=True)` exception class does): nobody has any
    business storing attributes on somebody else's exception"""

    def __setattr__(self, name: str, value: Any) -> None:
        raise AttributeError(f"cannot assign to field {name!r}")


def make_exc(kind: str, tag: Any) -> BaseException:
    if kind == "ValueError":
        return ValueError(f"injected {tag}")
    if kind == "Custom":
        import zlib

        cls = UnprintableCustom if zlib.crc32(str(tag).encode()) % 2 else CustomError
        return cls(f"injected {tag}")
    if kind == "Frozen":
        return FrozenError(f"injected {tag}")
    if kind == "Group":
        return ExceptionGroup(f"injected group {tag}", [ValueError(f"member {tag}"), KeyError(f"member2 {tag}")])
    if kind == "Group1":
        # a group with a single ordinary member (what a task group in the block raises when one child failed): still a group
        return ExceptionGroup(f"injected group of one {tag}", [ValueError(f"only member {tag}")])
    if kind == "BaseGroup":
        return BaseExceptionGroup(f"injected base group {tag}", [BaseCustom(f"member {tag}"), ValueError(f"member2 {tag}")])
    if kind == "KeyboardInterrupt":
        return KeyboardInterrupt(f"injected {tag}")
    if kind == "SystemExit":
        return SystemExit(f"injected {tag}")
    if kind == "BaseCustom":
        return BaseCustom(f"injected {tag}")
    if kind == "LookupError":
        return LookupError(f"injected {tag}")
    if kind == "StartError":
        # what a component sees when it starts an inner component tree itself and that one fails
        from asphalt.core import Component, ComponentStartError

        inner = ComponentStartError("creating", f"inner.of.{tag}", Component)
        inner.__cause__ = RuntimeError(f"injected inner failure {tag}")
        return inner
    raise ValueError(kind)


EXC_KINDS = ["ValueError", "Custom", "Group", "Group1", "KeyboardInterrupt", "SystemExit", "BaseCustom", "BaseGroup"]
ORDINARY_EXC_KINDS = ["ValueError", "Custom", "LookupError"]


def leaves(exc: BaseException | None) -> list[BaseException]:
    """all non-group exceptions in the tree of (nested) exception groups"""
    if exc is None:
        return []
    if isinstance(exc, BaseExceptionGroup):
        out: list[BaseException] = []
        for e in exc.exceptions:
            out.extend(leaves(e))
        return out
    return [exc]


def groups(exc: BaseException | None) -> list[BaseExceptionGroup]:
    if isinstance(exc, BaseExceptionGroup):
        out = [exc]
        for e in exc.exceptions:
            out.extend(groups(e))
        return out
    return []


def contains(exc: BaseException | None, target: BaseException) -> bool:
    """target is exc itself or a member (at any depth) of the group exc"""
    if exc is None:
        return False
    if exc is target:
        return True
    if isinstance(exc, BaseExceptionGroup):
        return any(contains(e, target) for e in exc.exceptions)
    return False


def same_exc(a: BaseException, b: BaseException) -> bool:
    """identity, or - for exception groups, which task groups / nurseries may re-create via split()/derive() -
    the same leaves by identity in the same order"""
    if a is b:
        return True
    if isinstance(a, BaseExceptionGroup) and isinstance(b, BaseExceptionGroup):
        la, lb = leaves(a), leaves(b)
        return len(la) == len(lb) and all(x is y for x, y in zip(la, lb))
    return False


def contains_same(exc: BaseException | None, target: BaseException) -> bool:
    if exc is None:
        return False
    if same_exc(exc, target):
        return True
    if isinstance(exc, BaseExceptionGroup):
        return any(contains_same(e, target) for e in exc.exceptions)
    return False


def is_cancellation(exc: BaseException) -> bool:
    import asyncio

    if isinstance(exc, asyncio.CancelledError):
        return True
    try:
        import trio

        return isinstance(exc, trio.Cancelled)
    except Exception:
        return False


def describe_exc(exc: BaseException | None) -> Any:
    if exc is None:
        return None
    if isinstance(exc, BaseExceptionGroup):
        return {type(exc).__name__: [describe_exc(e) for e in exc.exceptions]}
    return f"{type(exc).__name__}({', '.join(map(str, exc.args))[:80]})"
