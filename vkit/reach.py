"""Reach counters: which source lines of the anchored functions did the workload execute?

Uses sys.monitoring (3.12) local LINE events; every callback returns DISABLE, so the cost is
one callback per line per process.  Reach never contributes to a *violated* verdict.
"""
from __future__ import annotations

import importlib
import inspect
import sys
from typing import Any

TOOL = 4  # a free tool id (0-5); 4 is not used by debuggers/coverage/profilers by convention


def _resolve(spec: str) -> Any:
    modname, qual = spec.split(":")
    obj: Any = importlib.import_module(modname)
    for part in qual.split("."):
        obj = inspect.getattr_static(obj, part) if inspect.isclass(obj) else getattr(obj, part)
        if isinstance(obj, (staticmethod, classmethod)):
            obj = obj.__func__
    if not hasattr(obj, "__code__") and callable(getattr(obj, "callback", None)):
        obj = obj.callback  # click.Command
    while hasattr(obj, "__wrapped__"):
        obj = obj.__wrapped__
    return obj


class Reach:
    def __init__(self, anchors: list[str]) -> None:
        self.anchors = anchors
        self.hit: dict[str, set[int]] = {}
        self.codes: dict[Any, str] = {}
        self.active = False

    def start(self) -> None:
        mon = getattr(sys, "monitoring", None)
        if mon is None:
            return
        try:
            mon.use_tool_id(TOOL, "verif-reach")
        except ValueError:
            return
        self.active = True

        def on_line(code: Any, line: int) -> Any:
            name = self.codes.get(code)
            if name is not None:
                self.hit[name].add(line)
            return mon.DISABLE

        mon.register_callback(TOOL, mon.events.LINE, on_line)
        for spec in self.anchors:
            try:
                fn = _resolve(spec)
                code = fn.__code__
            except Exception:
                continue
            self.hit[spec] = set()
            self.codes[code] = spec
            mon.set_local_events(TOOL, code, mon.events.LINE)
            # nested code objects (closures such as finalize_service_task, wrapper.teardown_callback)
            def nested(parent: Any, prefix: str) -> None:
                for const in parent.co_consts:
                    if hasattr(const, "co_code") and not const.co_name.startswith("<"):
                        sub = f"{prefix}.<{const.co_name}>"
                        self.hit[sub] = set()
                        self.codes[const] = sub
                        mon.set_local_events(TOOL, const, mon.events.LINE)
                        nested(const, sub)

            nested(code, spec)

    def stop(self) -> dict[str, list[int]]:
        if self.active:
            mon = sys.monitoring
            for code in self.codes:
                mon.set_local_events(TOOL, code, 0)
            mon.register_callback(TOOL, mon.events.LINE, None)
            mon.free_tool_id(TOOL)
            self.active = False
        return {k: sorted(v) for k, v in self.hit.items()}


def source_lines(spec: str) -> dict[int, str]:
    """line number -> stripped source text of the anchored function (for the evidence file)."""
    try:
        fn = _resolve(spec)
        lines, start = inspect.getsourcelines(fn)
    except Exception:
        return {}
    return {start + i: l.strip() for i, l in enumerate(lines)}
