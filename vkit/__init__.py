"""vkit - substrate of the runtime-monitoring checks (see DESIGN.md section 1).

Importing this package puts the tree under test ($VERIF_REPO/src, default /repo/src) at the
front of sys.path *before* asphalt is imported and the offline third-party tools
(/verif/.deps) at the end.
"""
from __future__ import annotations

import os
import subprocess
import sys

ROOT = os.path.dirname(os.path.dirname(os.path.abspath(__file__)))
REPO = os.environ.get("VERIF_REPO", "/repo")
DEPS = os.path.join(ROOT, ".deps")
PYTHON = "/venv/bin/python"
WHEELS = "/opt/veriftools/wheels"


def ensure_deps() -> None:
    """Install icontract / deal / jsonschema offline into /verif/.deps if missing."""
    if all(
        os.path.isdir(os.path.join(DEPS, d)) for d in ("icontract", "deal", "jsonschema")
    ):
        return
    subprocess.run(
        [PYTHON, "-m", "pip", "install", "-q", "--no-index", "--find-links", WHEELS,
         "--target", DEPS, "icontract", "deal", "jsonschema"],
        check=True,
        stdout=subprocess.DEVNULL,
        stderr=subprocess.DEVNULL,
        env={**os.environ, "PIP_NO_INDEX": "1", "PIP_DISABLE_PIP_VERSION_CHECK": "1"},
    )


def setup_paths() -> None:
    src = os.path.join(REPO, "src")
    if "asphalt" in sys.modules:
        mod = sys.modules["asphalt"]
        paths = list(getattr(mod, "__path__", []))
        if not any(p.startswith(src) for p in paths):
            raise RuntimeError(f"asphalt already imported from {paths}, wanted {src}")
    if src in sys.path:
        sys.path.remove(src)
    sys.path.insert(0, src)
    if ROOT not in sys.path:
        sys.path.insert(1, ROOT)
    fixtures = os.path.join(ROOT, "fixtures")  # fixture module + *.dist-info with asphalt.components entry points
    if fixtures not in sys.path:
        sys.path.insert(2, fixtures)
    if DEPS not in sys.path:
        sys.path.append(DEPS)


setup_paths()
