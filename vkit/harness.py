"""Sharded execution of a check, merging, verdicts, evidence (DESIGN.md 1.1, 1.7, 1.8).

A check module (checks/cNN_*.py) provides

    PROPERTY   "C01"
    LEVEL      "exploration" | "fault_enumeration"
    RULE       how cases are generated and what makes one distinct / non-trivial
    ANCHORS    ["asphalt.core._context:Context._run_teardown_callbacks", ...]   (reach, informational)
    DECIDING   {"counter name": "what it proves was exercised"}  - every one must be > 0
    ASSUMPTIONS [...]
    plan(tier) -> {"cases": N, "min_cases": M, "budget_s": seconds per worker}
    gen_case(idx, seed, tier) -> JSON-able case            (deterministic in (seed, idx))
    run_case(case) -> {"violations": [{"key","msg","witness"}], "sig": str|None,
                       "nontrivial": bool, "counters": {..}, "sample": any|None}
    (optional) exhaustive(tier) -> bool
"""
from __future__ import annotations

import hashlib
import importlib
import json
import os
import random
import shutil
import subprocess
import sys
import tempfile
import time
import traceback
from collections import Counter
from typing import Any

from . import DEPS, PYTHON, REPO, ROOT, ensure_deps


def safe_repr(obj: Any) -> str:
    """json fall-back: workloads hand the library objects whose repr() raises on purpose"""
    try:
        return repr(obj)
    except Exception:
        return f"<{type(obj).__name__} object whose repr() raises>"

CHECKS = {
    "C01": "checks.c01_teardown",
    "C02": "checks.c02_scoping",
    "C03": "checks.c03_unique",
    "C04": "checks.c04_factory",
    "C05": "checks.c05_startorder",
    "C06": "checks.c06_wait",
    "C07": "checks.c07_startfail",
    "C08": "checks.c08_service",
    "C09": "checks.c09_taskfactory",
    "C10": "checks.c10_events",
    "C11": "checks.c11_channels",
    "C12": "checks.c12_current",
    "C13": "checks.c13_lifecycle",
    "C14": "checks.c14_config",
    "C15": "checks.c15_runapp",
    "C16": "checks.c16_cli",
    "C17": "checks.c17_merge",
    "C18": "checks.c18_announce",
    "C19": "checks.c19_inject",
}

MAX_VIOLATIONS_KEPT = 40
MAX_SAMPLES = 4


def case_rng(prop: str, seed: int, idx: int, salt: str = "") -> random.Random:
    return random.Random(f"{prop}:{seed}:{idx}:{salt}")


def short_hash(obj: Any) -> str:
    if not isinstance(obj, str):
        obj = json.dumps(obj, sort_keys=True, default=safe_repr)
    return hashlib.blake2b(obj.encode(), digest_size=8).hexdigest()


# --------------------------------------------------------------------------- worker


def shard_interpreter(shard: int) -> tuple[list[str], str]:
    """how the worker of a shard is started: every fourth shard under `python -O` (what asphalt itself calls production mode:
    `assert` statements and `if __debug__:` blocks are gone), and the shards under three different hash seeds (set / dict-of-str
    iteration orders differ between them); a replay file remembers both"""
    return (["-O"] if shard % 4 == 3 else []), str(shard % 3)


def logging_on(idx: int) -> bool:
    """every third case runs with asphalt's logging switched on down to DEBUG (records are formatted and thrown away), the
    others with logging disabled: what the library does must not depend on whether anybody listens to its log"""
    return idx % 3 == 1


class _FormatAndDrop:
    """installed as the only handler of the root logger while a case runs with logging on"""

    _handler: Any = None

    @classmethod
    def handler(cls) -> Any:
        import logging

        if cls._handler is None:
            class Handler(logging.Handler):
                def emit(self, record: Any) -> None:
                    try:
                        self.format(record)
                    except Exception:  # logging.Handler.handleError() would only print; formatting errors never propagate
                        pass

            cls._handler = Handler(level=logging.DEBUG)
        return cls._handler


def set_logging(on: bool) -> None:
    import logging

    root = logging.getLogger()
    h = _FormatAndDrop.handler()
    if on:
        logging.disable(logging.NOTSET)
        if h not in root.handlers:
            root.addHandler(h)
        root.setLevel(logging.DEBUG)
    else:
        logging.disable(logging.CRITICAL)


def worker_main(argv: list[str]) -> int:
    prop, shard, nshards, tier, seed, out = argv
    shard, nshards, seed = int(shard), int(nshards), int(seed)
    import faulthandler
    import logging
    import warnings

    faulthandler.enable()
    logging.disable(logging.CRITICAL)
    warnings.simplefilter("ignore")
    mod = importlib.import_module(CHECKS[prop])
    plan = mod.plan(tier)
    n = plan["cases"]
    budget = float(os.environ.get("VERIF_BUDGET_S", plan.get("budget_s", 120)))
    from .reach import Reach

    reach = Reach(list(getattr(mod, "ANCHORS", [])))
    reach.start()
    t0 = time.monotonic()
    res: dict[str, Any] = {
        "evaluations": 0,
        "sigs": set(),
        "counters": Counter(),
        "violations": [],
        "n_violations": 0,
        "samples": [],
        "errors": [],
        "stopped_early": False,
        "slowest": [0.0, -1],
    }
    import signal

    class CaseTimeout(BaseException):
        pass

    fired = [0]

    def on_alarm(signum: int, frame: Any) -> None:
        # fires once after case_limit seconds and then every 50 ms until the case is over, so that code which swallows
        # the exception (or spins again) cannot keep the worker busy for ever
        fired[0] += 1
        raise CaseTimeout("wall-clock watchdog: the case ran for more than its limit of real seconds (default %d)" % case_limit)

    case_limit = int(os.environ.get("VERIF_CASE_TIMEOUT_S", plan.get("case_timeout_s", 20)))
    signal.signal(signal.SIGALRM, on_alarm)
    indices = list(range(shard, n, nshards))
    # cases a check cannot do without (e.g. the repository's test-suite as one workload) run first, so that a worker that
    # is cut off at its budget on a loaded machine has done them
    prio = set(getattr(mod, "priority_cases", lambda tier: [])(tier))
    indices.sort(key=lambda i: (i not in prio, i))
    for idx in indices:
        if time.monotonic() - t0 > budget:
            res["stopped_early"] = True
            break
        case = mod.gen_case(idx, seed, tier)
        tc = time.monotonic()
        try:
            fired[0] = 0
            # a case may ask for a longer limit of its own (the repository's test-suite as one workload takes a while on a loaded machine)
            limit = case.get("timeout_s", case_limit) if isinstance(case, dict) and "VERIF_CASE_TIMEOUT_S" not in os.environ else case_limit
            signal.setitimer(signal.ITIMER_REAL, limit, 0.05)
            try:
                set_logging(logging_on(idx))
                r = mod.run_case(case)
            finally:
                signal.setitimer(signal.ITIMER_REAL, 0)
                set_logging(False)
            if logging_on(idx):
                res["counters"]["cases_run_with_debug_logging_on"] += 1
            if sys.flags.optimize:
                res["counters"]["cases_run_under_python_O"] += 1
            if fired[0]:
                raise CaseTimeout("wall-clock watchdog fired %d time(s) during this case (inconclusive, not a verdict)" % fired[0])
        except BaseException as exc:  # harness failure (or wall-clock watchdog): never a verdict on asphalt
            if isinstance(exc, KeyboardInterrupt) and "injected" not in str(exc):
                raise
            res["errors"].append(
                {"idx": idx, "error": "".join(traceback.format_exception(exc))[-3000:], "case": case}
            )
            if len(res["errors"]) > 8:
                break
            continue
        res["evaluations"] += 1
        dtc = time.monotonic() - tc
        if dtc > res["slowest"][0]:
            res["slowest"] = [round(dtc, 3), idx]
        res["counters"].update(r.get("counters") or {})
        if r.get("nontrivial") and r.get("sig") is not None:
            res["sigs"].add(short_hash(r["sig"]))
        for v in r.get("violations") or []:
            res["n_violations"] += 1
            if len(res["violations"]) < MAX_VIOLATIONS_KEPT:
                res["violations"].append({"idx": idx, "case": case, "logging": logging_on(idx), "optimize": bool(sys.flags.optimize),
                                          "hashseed": os.environ.get("PYTHONHASHSEED", "0"), **v})
        if r.get("sample") is not None and len(res["samples"]) < MAX_SAMPLES:
            res["samples"].append(r["sample"])
    res["reach"] = reach.stop()
    res["sigs"] = sorted(res["sigs"])
    res["counters"] = dict(res["counters"])
    res["wall_s"] = time.monotonic() - t0
    with open(out, "w") as f:
        json.dump(res, f, default=safe_repr)
    return 0


# --------------------------------------------------------------------------- orchestrator


def load_known() -> dict[str, Any]:
    path = os.path.join(ROOT, "known_findings.json")
    if not os.path.exists(path):
        return {"open": [], "fixed": []}
    with open(path) as f:
        return json.load(f)


def validate_evidence(ev: dict[str, Any]) -> None:
    if DEPS not in sys.path:
        sys.path.append(DEPS)
    import jsonschema

    with open("/root/.vp/EVIDENCE.schema.json") as f:
        schema = json.load(f)
    jsonschema.validate(ev, schema)


def run_check(prop: str, tier: str, seed: int, jobs: int | None = None) -> int:
    ensure_deps()
    t0 = time.monotonic()
    mod = importlib.import_module(CHECKS[prop])
    plan = mod.plan(tier)
    n = plan["cases"]
    jobs = jobs or int(os.environ.get("VERIF_JOBS", "16"))
    nshards = max(1, min(jobs, n // max(1, plan.get("min_per_shard", 25)) or 1))
    tmp = tempfile.mkdtemp(prefix=f"verif_{prop}_")
    env = dict(os.environ)
    env["PYTHONHASHSEED"] = "0"
    env["PYTHONPATH"] = os.pathsep.join([os.path.join(REPO, "src"), ROOT, os.path.join(ROOT, "fixtures")])
    env["PYTHONDONTWRITEBYTECODE"] = "1"
    env.setdefault("VERIF_REPO", REPO)
    procs = []
    for s in range(nshards):
        out = os.path.join(tmp, f"shard{s}.json")
        flags, hashseed = shard_interpreter(s)
        p = subprocess.Popen(
            [PYTHON, *flags, "-m", "vkit.worker", prop, str(s), str(nshards), tier, str(seed), out],
            cwd=ROOT, env={**env, "PYTHONHASHSEED": hashseed}, stdout=subprocess.PIPE, stderr=subprocess.STDOUT,
        )
        procs.append((s, p, out))
    watchdog = float(plan.get("budget_s", 120)) * 3 + 120
    merged: dict[str, Any] = {
        "evaluations": 0, "sigs": set(), "counters": Counter(), "violations": [], "n_violations": 0,
        "samples": [], "errors": [], "stopped_early": 0, "reach": {}, "dead_shards": [], "slowest": [0.0, -1],
    }
    deadline = time.monotonic() + watchdog
    for s, p, out in procs:
        try:
            output, _ = p.communicate(timeout=max(1.0, deadline - time.monotonic()))
        except subprocess.TimeoutExpired:
            p.kill()
            output, _ = p.communicate()
            merged["dead_shards"].append({"shard": s, "why": "wall-clock watchdog", "tail": output[-2000:].decode(errors="replace")})
            continue
        if p.returncode != 0 or not os.path.exists(out):
            merged["dead_shards"].append({"shard": s, "why": f"exit {p.returncode}", "tail": output[-3000:].decode(errors="replace")})
            continue
        with open(out) as f:
            r = json.load(f)
        merged["evaluations"] += r["evaluations"]
        merged["sigs"].update(r["sigs"])
        merged["counters"].update(r["counters"])
        merged["n_violations"] += r["n_violations"]
        merged["violations"].extend(r["violations"])
        merged["samples"].extend(r["samples"])
        merged["errors"].extend(r["errors"])
        merged["stopped_early"] += bool(r["stopped_early"])
        if r.get("slowest", [0])[0] > merged["slowest"][0]:
            merged["slowest"] = r["slowest"]
        for k, v in r["reach"].items():
            merged["reach"].setdefault(k, set()).update(v)
    shutil.rmtree(tmp, ignore_errors=True)
    return finish(mod, prop, tier, seed, plan, merged, time.monotonic() - t0)


def finish(mod: Any, prop: str, tier: str, seed: int, plan: dict[str, Any], m: dict[str, Any], wall: float) -> int:
    known = load_known()
    open_keys = {(k["property"], k["key"]): k for k in known.get("open", [])}
    new_violations, known_hits = [], Counter()
    for v in m["violations"]:
        k = (prop, v.get("key"))
        if k in open_keys:
            known_hits[v.get("key")] += 1
        else:
            new_violations.append(v)
    # violations beyond the kept cap are of unknown class: count them as new unless every kept one was known
    overflow = m["n_violations"] - len(m["violations"])
    counters = m["counters"]
    deciding = getattr(mod, "DECIDING", {})
    missing = [name for name in deciding if counters.get(name, 0) <= 0]
    inconclusive: list[str] = []
    if m["dead_shards"]:
        inconclusive.append(f"{len(m['dead_shards'])} worker(s) died or hit the wall-clock watchdog")
    if m["errors"]:
        inconclusive.append(f"{len(m['errors'])} case(s) failed inside the harness")
    if m["evaluations"] < plan.get("min_cases", max(1, plan["cases"] // 4)):
        inconclusive.append(f"only {m['evaluations']} of {plan['cases']} planned cases completed")
    if missing:
        inconclusive.append("deciding counters never reached: " + ", ".join(missing))
    distinct = len(m["sigs"])
    if distinct < 2:
        inconclusive.append("fewer than 2 distinct non-trivial cases")

    # ---------------- evidence
    reach_report = {}
    from .reach import source_lines

    for spec, lines in sorted(m["reach"].items()):
        src = source_lines(spec) if "<" not in spec else {}
        executable = len(src)
        reach_report[spec] = {"lines_hit": len(lines), "source_lines": executable or None, "hit": sorted(lines)}
        if src:
            nested_hit = {ln for k, v in m["reach"].items() if k.startswith(spec + ".<") for ln in v}
            skip = ('"""', "#", ")", "(", "]", "}", "else:", "try:", "finally:", "@", "...")
            unreached = {ln: txt for ln, txt in src.items() if ln not in lines and ln not in nested_hit and txt and not txt.startswith(skip)
                         and not txt.startswith(("def ", "async def ", "class ", ":param", ":return", ":raises", ":var", "f\"", "\"", "'"))}
            # heuristic listing for the reader (docstring text, continuation lines etc. may appear): information only
            reach_report[spec]["possibly_unreached"] = {str(k): v[:90] for k, v in list(sorted(unreached.items()))[:25]}
    coverage = {
        "evaluations": int(m["evaluations"]),
        "distinct_nontrivial": int(distinct),
        "rule": mod.RULE,
        "samples": m["samples"][:MAX_SAMPLES] or [{"note": "no sample recorded"}],
        "exhaustive": bool(getattr(mod, "exhaustive", lambda t: False)(tier)),
        "planned_cases": plan["cases"],
        "counters": {k: int(v) for k, v in sorted(counters.items())},
        "deciding_counters": {k: int(counters.get(k, 0)) for k in deciding},
        "anchor_reach": reach_report,
        "known_finding_hits": dict(known_hits),
        "inconclusive_reasons": inconclusive,
        "workers_stopped_at_budget": m["stopped_early"],
        "slowest_case": {"wall_s": m["slowest"][0], "index": m["slowest"][1]},
    }
    ev = {
        "property_id": prop, "tier": tier, "seed": int(seed), "level": mod.LEVEL,
        "coverage": coverage, "assumptions": list(getattr(mod, "ASSUMPTIONS", [])),
        "wall_s": round(wall, 2), "violations": len(new_violations) + (overflow if new_violations else 0),
    }
    evdir = os.environ.get("VERIF_EVIDENCE_DIR") or os.path.join(
        ROOT, "evidence" if os.path.realpath(REPO) == "/repo" else ".scratch_evidence")
    os.makedirs(evdir, exist_ok=True)
    path = os.path.join(evdir, f"{prop}.json")
    text = json.dumps(ev, indent=1, default=safe_repr)
    try:
        validate_evidence(json.loads(text))
    except Exception as exc:  # evidence that does not validate is reported, never hidden
        print(f"EVIDENCE-INVALID property={prop}: {exc}".splitlines()[0])
        inconclusive.append("evidence file does not validate")
    with open(path, "w") as f:
        f.write(text + "\n")

    # ---------------- report
    print(f"== {prop} tier={tier} seed={seed} repo={REPO} wall={wall:.1f}s")
    print(f"   cases run: {m['evaluations']} / planned {plan['cases']}; distinct non-trivial signatures: {distinct}; "
          f"slowest case #{m['slowest'][1]}: {m['slowest'][0]}s")
    show = sorted(counters.items())
    for i in range(0, len(show), 4):
        print("   " + "  ".join(f"{k}={v}" for k, v in show[i:i + 4]))
    for spec, rep in reach_report.items():
        print(f"   reach {spec}: {rep['lines_hit']} lines")
    for d in m["dead_shards"]:
        print(f"   DEAD SHARD {d['shard']}: {d['why']}\n{d['tail']}")
    for e in m["errors"][:3]:
        print(f"   HARNESS ERROR in case {e['idx']}:\n{e['error']}")
    for key, cnt in sorted(known_hits.items()):
        k = open_keys[(prop, key)]
        print(f"KNOWN-FINDING: property={prop} {k['what_fails']} [{key}; {cnt} witnesses this run]")
    if new_violations:
        os.makedirs(os.path.join(ROOT, "replays"), exist_ok=True)
        seen_keys = set()
        for v in new_violations:
            if v.get("key") in seen_keys and len(seen_keys) > 0:
                continue
            seen_keys.add(v.get("key"))
            rp = os.path.join(ROOT, "replays", f"{prop}_{tier}_{seed}_{v['idx']}_{short_hash(v.get('key') or '')}.json")
            with open(rp, "w") as f:
                json.dump({"property": prop, "case": v["case"], "logging": bool(v.get("logging")), "optimize": bool(v.get("optimize")),
                           "hashseed": v.get("hashseed", "0"), "key": v.get("key"), "msg": v.get("msg"),
                           "witness": v.get("witness")}, f, indent=1, default=safe_repr)
            print(f"   violation[{v.get('key')}]: {v.get('msg')}")
            print(f"VIOLATION property={prop} replay={rp}")
        print(f"   total violating observations: {m['n_violations']} ({len(new_violations)} kept and not known)")
        return 1
    if inconclusive:
        for r in inconclusive:
            print(f"INCONCLUSIVE property={prop} reason={r}")
        return 2
    print(f"HELD property={prop} on {m['evaluations']} executions ({distinct} distinct non-trivial)")
    return 0


def replay(prop: str, path: str) -> int:
    ensure_deps()
    import logging

    logging.disable(logging.CRITICAL)
    mod = importlib.import_module(CHECKS[prop])
    with open(path) as f:
        rec = json.load(f)
    want_opt, want_seed = bool(rec.get("optimize")), str(rec.get("hashseed", "0"))
    if (bool(sys.flags.optimize) != want_opt or os.environ.get("PYTHONHASHSEED") != want_seed) and not os.environ.get("VERIF_REPLAY_CHILD"):
        # the case was found by a worker started differently (python -O / another hash seed): replay it the same way
        env = {**os.environ, "PYTHONHASHSEED": want_seed, "VERIF_REPLAY_CHILD": "1"}
        return subprocess.run([PYTHON, *(["-O"] if want_opt else []), os.path.join(ROOT, "run_check.py"), prop, "--replay", path], env=env).returncode
    set_logging(bool(rec.get("logging")))
    r = mod.run_case(rec["case"])
    set_logging(False)
    known = {(k["property"], k["key"]) for k in load_known().get("open", [])}
    rc = 0
    for v in r.get("violations") or []:
        print(f"   violation[{v.get('key')}]: {v.get('msg')}")
        print(json.dumps(v.get("witness"), indent=1, default=safe_repr)[:4000])
        if (prop, v.get("key")) in known:
            print(f"KNOWN-FINDING: property={prop} {v.get('key')}")
        else:
            print(f"VIOLATION property={prop} replay={path}")
            rc = 1
    if not r.get("violations"):
        print(f"replay of {path}: no violation on the current tree")
    return rc
