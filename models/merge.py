"""Reference model of merge_config, written from the statement of C17 (not from the code):
a fold over the union of keys instead of copy-then-update."""
from __future__ import annotations

from typing import Any


def is_dict(x: Any) -> bool:
    return isinstance(x, dict)


def model_merge(original: Any, overrides: Any) -> dict[Any, Any]:
    a = {} if original is None else original
    b = {} if overrides is None else overrides
    keys = list(a) + [k for k in b if k not in a]
    out: dict[Any, Any] = {}
    for k in keys:
        if k in a and k in b:
            out[k] = model_merge(a[k], b[k]) if is_dict(a[k]) and is_dict(b[k]) else b[k]
        else:
            out[k] = b[k] if k in b else a[k]
    return out


def canon(x: Any) -> Any:
    """Structural snapshot: equal iff same shape and same leaves (dict subclass / key order ignored,
    list vs tuple vs dict distinguished, leaves compared by type name and repr)."""
    if isinstance(x, dict):
        return ("dict", tuple(sorted(((repr(k), canon(v)) for k, v in x.items()))))
    if isinstance(x, list):
        return ("list", tuple(canon(v) for v in x))
    if isinstance(x, tuple):
        return ("tuple", tuple(canon(v) for v in x))
    return (type(x).__name__, repr(x))


def ids(x: Any, acc: dict[int, Any] | None = None) -> dict[int, Any]:
    """id -> container for every dict/list reachable from x (identity snapshot)."""
    acc = {} if acc is None else acc
    if isinstance(x, (dict, list)) and id(x) not in acc:
        acc[id(x)] = x
        for v in (x.values() if isinstance(x, dict) else x):
            ids(v, acc)
    return acc
