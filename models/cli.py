"""Reference model of `asphalt run`, written from the statement of C16 and docs/userguide/deployment.rst:
own deep merge (models.merge), own character-level parser of --set keys (not the regex)."""
from __future__ import annotations

import copy
from typing import Any

from models.merge import model_merge


class CliError(Exception):
    pass


def split_key(key: str) -> list[str]:
    """dots separate keys unless escaped with a backslash"""
    parts, cur, i = [], "", 0
    while i < len(key):
        ch = key[i]
        if ch == "\\" and i + 1 < len(key) and key[i + 1] == ".":
            cur += "."
            i += 2
            continue
        if ch == ".":
            parts.append(cur)
            cur = ""
        else:
            cur += ch
        i += 1
    parts.append(cur)
    return parts


def expected_call(files: list[dict[str, Any]], sets: list[tuple[str, Any]], service: str | None, env_service: str | None) -> dict[str, Any]:
    """returns {"type", "component", "kwargs"} or raises CliError.  `sets` holds already YAML-parsed values,
    or the marker ("NOEQ",) for an override without '='."""
    config: dict[str, Any] = {}
    for doc in files:
        config = model_merge(config, copy.deepcopy(doc))
    for key, value in sets:
        if value == ("NOEQ",):
            raise CliError("override without '='")
        parts = split_key(key)
        section = config
        for p in parts[:-1]:
            if p not in section:
                section[p] = {}
            section = section[p]
            if not isinstance(section, dict):
                raise CliError("override path runs through a non-mapping")
        section[parts[-1]] = copy.deepcopy(value)
    services = config.pop("services", {})
    if not isinstance(services, dict):
        raise CliError("services is not a dict")
    if "component" in config:
        comp = config.pop("component")
        services.setdefault("default", {"component": comp})
    chosen = service or env_service
    if not services:
        raise CliError("no services")
    if chosen:
        if chosen not in services:
            raise CliError("unknown service")
        svc = services[chosen]
    elif len(services) == 1:
        svc = next(iter(services.values()))
    elif "default" in services:
        svc = services["default"]
    else:
        raise CliError("ambiguous service")
    if svc is not None and not isinstance(svc, dict):
        raise CliError("service section is not a mapping")
    config = model_merge(config, svc)
    if "component" not in config:
        raise CliError("no component")
    comp = config.pop("component")
    if not isinstance(comp, dict) or "type" not in comp:
        raise CliError("no type")
    comp = dict(comp)
    ctype = comp.pop("type")
    kwargs = dict(config)
    kwargs.setdefault("backend", "asyncio")
    kwargs.setdefault("backend_options", {})
    return {"type": ctype, "component": comp, "kwargs": kwargs}
