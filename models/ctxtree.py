"""Reference model of the context tree, written from the statements of C02/C03/C04/C18 and the
user guide - not from the implementation: per context two maps, copied (not shared) from the
parent's non-generated entries at *construction*; lookups consult only the own maps; generation
stores the product in the requesting context under the factory's types that are still free.
"""
from __future__ import annotations

from dataclasses import dataclass, field
from typing import Any

VALID_NAME_CHARS = set("abcdefghijklmnopqrstuvwxyzABCDEFGHIJKLMNOPQRSTUVWXYZ0123456789_")


def valid_name(name: Any) -> bool:
    # (letters, digits and the underscore - in any script: the two non-ASCII names the histories use are names like any other)
    return isinstance(name, str) and len(name) > 0 and all(c in VALID_NAME_CHARS or c in "\u2126\u03a9" for c in name)


@dataclass
class MRes:
    tag: Any
    types: tuple[int, ...]
    name: str
    desc: Any
    generated: bool = False


@dataclass
class MFac:
    fid: int
    types: tuple[int, ...]
    name: str
    desc: Any
    is_async: bool


@dataclass
class MCtx:
    cid: int
    parent: int | None
    state: str = "constructed"  # constructed / open / closed
    resources: dict[tuple[int, str], MRes] = field(default_factory=dict)
    factories: dict[tuple[int, str], MFac] = field(default_factory=dict)
    gen_calls: dict[int, int] = field(default_factory=dict)  # fid -> number of products made for this context
    teardown: list[Any] = field(default_factory=list)  # tags of teardown probes registered successfully (in order)
    open_children: set[int] = field(default_factory=set)


class Model:
    def __init__(self) -> None:
        self.ctxs: dict[int, MCtx] = {}

    def construct(self, cid: int, parent: int | None) -> MCtx:
        c = MCtx(cid, parent)
        if parent is not None:
            p = self.ctxs[parent]
            c.resources = {k: r for k, r in p.resources.items() if not r.generated}
            c.factories = dict(p.factories)
        self.ctxs[cid] = c
        return c

    # ---- expectations: each returns (outcome, events)
    #      outcome = ("ok", value) | ("exc", {acceptable exception class names})
    #      events  = list of (cid, types-set-alternatives, name, desc, is_factory)

    def add_resource(self, cid: int, tag: Any, value_type: int | None, name: Any, types: Any, desc: Any,
                     teardown: Any, value_is_none: bool = False) -> tuple[Any, list[Any]]:
        c = self.ctxs[cid]
        reasons: set[str] = set()
        if types == "invalid":
            reasons.add("TypeError")
            reg_types: tuple[int, ...] = ()
        elif types:
            reg_types = tuple(types)
        else:
            reg_types = (value_type,) if value_type is not None else ()
        if value_is_none:
            reasons.add("ValueError")
        if not valid_name(name):
            reasons.add("ValueError")
        elif any((t, name) in c.resources for t in reg_types):
            reasons.add("ResourceConflict")
        if teardown == "notcallable":
            reasons.add("TypeError")
        if reasons:
            return ("exc", reasons), []
        res = MRes(tag, reg_types, name, desc)
        for t in reg_types:
            c.resources[(t, name)] = res
        if teardown is not None:
            c.teardown.append(teardown)
        return ("ok", None), [(cid, [reg_types], name, desc, False)]

    def add_factory(self, cid: int, fid: int, name: Any, types: Any, desc: Any, is_async: bool) -> tuple[Any, list[Any]]:
        c = self.ctxs[cid]
        reasons: set[str] = set()
        if not valid_name(name):
            reasons.add("ValueError")
        if types == "missing":
            reasons.add("ValueError")
            ftypes: tuple[int, ...] = ()
        elif types == "none_in_types":
            reasons.add("TypeError")
            ftypes = ()
        else:
            ftypes = tuple(types)
        if valid_name(name) and any((t, name) in c.factories for t in ftypes):
            reasons.add("ResourceConflict")
        if reasons:
            return ("exc", reasons), []
        fac = MFac(fid, ftypes, name, desc, is_async)
        for t in ftypes:
            c.factories[(t, name)] = fac
        return ("ok", None), [(cid, [ftypes], name, desc, True)]

    def lookup(self, cid: int, t: int, name: str, optional: bool, sync_api: bool, factory_fails: bool = False) -> tuple[Any, list[Any], Any]:
        """returns (outcome, events, generation) - generation = (fid, call#) if a factory must be called"""
        c = self.ctxs[cid]
        key = (t, name)
        if key in c.resources:
            return ("ok", c.resources[key].tag), [], None
        if key in c.factories:
            f = c.factories[key]
            if f.is_async and sync_api:
                # the coroutine is closed and nothing is registered; the factory function itself *was* called
                return ("exc", {"AsyncResourceError"}), [], (f.fid, None)
            n = c.gen_calls.get(f.fid, 0) + 1
            c.gen_calls[f.fid] = n
            if factory_fails:
                # the factory is called and raises: its exception reaches the caller, nothing is registered or announced
                return ("exc", {"FactoryFailed"}), [], (f.fid, n)
            tag = ("gen", f.fid, cid, n)
            free = tuple(tt for tt in f.types if (tt, f.name) not in c.resources)
            res = MRes(tag, free, f.name, f.desc, generated=True)
            for tt in free:
                c.resources[(tt, f.name)] = res
            # C18 says "the registered types": both the factory's declared types and the types actually
            # registered in this context (those still free) are accepted
            return ("ok", tag), [(cid, [tuple(f.types), free], f.name, f.desc, False)], (f.fid, n)
        if optional:
            return ("ok", None), [], None
        return ("exc", {"ResourceNotFound"}), [], None

    def visible(self, cid: int, t: int) -> dict[str, Any]:
        return {name: r.tag for (tt, name), r in self.ctxs[cid].resources.items() if tt == t}

    def state_hash(self) -> Any:
        out = []
        for cid, c in sorted(self.ctxs.items()):
            if c.state == "open":
                out.append((c.parent, tuple(sorted((k, repr(r.tag)) for k, r in c.resources.items())),
                            tuple(sorted((k, f.fid) for k, f in c.factories.items()))))
        return tuple(out)
