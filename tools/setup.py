#!/venv/bin/python
"""MANIFEST.setup_cmd: offline install of icontract/deal/jsonschema into /verif/.deps + a self-test
of the substrate (virtual clocks on both backends, contracts evaluating)."""
import os
import sys
import time

ROOT = os.path.dirname(os.path.dirname(os.path.abspath(__file__)))
sys.path.insert(0, ROOT)
import vkit  # noqa: E402

vkit.ensure_deps()
sys.path.append(vkit.DEPS)
import icontract, deal, jsonschema  # noqa: E401,E402,F401

import anyio  # noqa: E402

from vkit.vtime import VirtualDeadlock, run_virtual  # noqa: E402


async def sleeper():
    t0 = anyio.current_time()
    await anyio.sleep(3600)
    return anyio.current_time() - t0


async def stuck():
    await anyio.Event().wait()


for backend in ("asyncio", "trio"):
    w0 = time.monotonic()
    dt = run_virtual(backend, sleeper)
    assert dt == 3600, (backend, dt)
    try:
        run_virtual(backend, stuck)
    except VirtualDeadlock:
        pass
    else:
        raise SystemExit(f"{backend}: virtual deadlock not detected")
    assert time.monotonic() - w0 < 5, "virtual time is not virtual"

from monitors import contracts  # noqa: E402

contracts.install_merge_contract()
from asphalt.core import _utils  # noqa: E402

_utils.merge_config({"a": {"b": 1}}, {"a": {"c": 2}})
assert contracts.LOG.evaluations.get("merge_config", 0) >= 1
import asphalt  # noqa: E402

print("setup ok: deps in", vkit.DEPS, "; asphalt from", list(asphalt.__path__))
