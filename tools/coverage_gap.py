#!/venv/bin/python
"""Development aid (not a check): which lines / branches of asphalt.core does the union of all workloads never execute?

    tools/coverage_gap.py [--cases N] [--checks C01,C05] [--branch]

Runs the first N generated cases of every check in-process under coverage.py and prints the lines of
$VERIF_REPO/src/asphalt/core that no workload reached.  A gap is a hint where a generator could be widened; it
decides nothing.
"""
from __future__ import annotations

import argparse
import importlib
import logging
import os
import sys
import warnings

ROOT = os.path.dirname(os.path.dirname(os.path.abspath(__file__)))
sys.path.insert(0, ROOT)
import vkit  # noqa: E402

vkit.setup_paths()


def main() -> int:
    ap = argparse.ArgumentParser()
    ap.add_argument("--cases", type=int, default=300)
    ap.add_argument("--checks", default="")
    ap.add_argument("--branch", action="store_true")
    a = ap.parse_args()
    import coverage

    from vkit.harness import CHECKS

    logging.disable(logging.CRITICAL)
    warnings.simplefilter("ignore")
    src = os.path.join(vkit.REPO, "src", "asphalt", "core")
    cov = coverage.Coverage(include=[os.path.join(src, "*")], branch=a.branch, data_file=None)
    cov.start()
    wanted = [c for c in a.checks.split(",") if c] or sorted(CHECKS)
    for cid in wanted:
        mod = importlib.import_module(CHECKS[cid])
        n = min(a.cases, mod.plan("quick")["cases"])
        errs = 0
        for idx in range(n):
            try:
                mod.run_case(mod.gen_case(idx, 0, "quick"))
            except BaseException as e:  # noqa: BLE001
                if isinstance(e, KeyboardInterrupt) and "injected" not in str(e):
                    raise
                errs += 1
        print(f"{cid}: {n} cases ({errs} harness errors)", file=sys.stderr)
    cov.stop()
    for f in sorted(os.listdir(src)):
        if not f.endswith(".py"):
            continue
        path = os.path.join(src, f)
        try:
            _, statements, _, missing, fmt = cov.analysis2(path)
        except Exception as e:  # noqa: BLE001
            print(f, "not analysed:", e)
            continue
        print(f"{f}: {len(statements) - len(missing)}/{len(statements)} statements reached; missing: {fmt}")
        if a.branch:
            an = cov._analyze(path)
            arcs = sorted(an.arcs_missing())
            print(f"   missing branches: {arcs}")
    return 0


if __name__ == "__main__":
    sys.exit(main())
