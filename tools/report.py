#!/venv/bin/python
"""Regenerates the validation tables of DESIGN.md (between the VALIDATION markers) from
mutants/catalogue.json + mutants/results.json and seeded/*/meta.json."""
import json
import os
import re

ROOT = os.path.dirname(os.path.dirname(os.path.abspath(__file__)))


def main() -> None:
    cat = json.load(open(os.path.join(ROOT, "mutants", "catalogue.json")))
    res = json.load(open(os.path.join(ROOT, "mutants", "results.json")))
    lines = ["### 8.1 Own mutants (mutants/catalogue.json, run with mutants/run.py --suite)", "",
             "`suite` = does the repository's own test-suite still pass with the change; `check` = verdict of the property's quick check.", "",
             "| mutant | property | suite | check | violation keys (first 3) | note |", "|---|---|---|---|---|---|"]
    for m in cat:
        r = res.get(m["id"], {})
        suite = {True: "passes", False: "fails", None: "?"}[r.get("suite_passes")]
        verdict = "killed" if r.get("killed") else ("inconclusive" if r.get("exit") == 2 else ("survives" if r else "not run"))
        if m.get("expect") == "survive":
            verdict += " (expected: equivalent)"
        lines.append(f"| {m['id']} | {m['property']} | {suite} | {verdict} | {', '.join(r.get('keys', [])[:3])} | {m.get('note', '')[:110]} |")
    lines += ["", "### 8.2 Seeded changes from independent sub-agents (seeded/<id>/)", "",
              "Each was produced by a fresh sub-agent that saw only the property text and a scratch worktree, confirmed by me (demo passes on the "
              "unchanged tree, fails with the change; the 287 tests still pass) and then run against the checks. `first` = verdict of the property's check "
              "as it was when the change arrived, `now` = after strengthening (if needed).", "",
              "| seed | property | what it needs to manifest | first | now | keys |", "|---|---|---|---|---|---|"]
    sd = os.path.join(ROOT, "seeded")
    for name in sorted(os.listdir(sd)):
        mp = os.path.join(sd, name, "meta.json")
        if not os.path.exists(mp):
            continue
        meta = json.load(open(mp))
        prop = meta.get("property", name.split("_")[0])
        hist = meta.get("check_results", [])

        def verdict(h):
            r = h["results"].get(prop, {})
            return "caught" if r.get("killed") else ("inconclusive" if r.get("exit") == 2 else "missed")

        first = verdict(hist[0]) if hist else "?"
        now = verdict(hist[-1]) if hist else "?"
        keys = ", ".join((hist[-1]["results"].get(prop, {}).get("keys") or [])[:3]) if hist else ""
        needs = re.sub(r"\s+", " ", meta.get("needs", ""))[:160]
        lines.append(f"| {name} | {prop} | {needs} | {first} | {now} | {keys} |")
    # ---- as-built tier sizes and the latest evidence per property
    import importlib
    import sys

    sys.path.insert(0, ROOT)
    from vkit.harness import CHECKS

    lines += ["", "### 8.3 Tiers as built (from each check's plan()) and the latest committed evidence", "",
              "| property | level | quick cases | thorough cases | latest evidence: tier / cases / distinct non-trivial / wall s |", "|---|---|---|---|---|"]
    for pid in sorted(CHECKS):
        try:
            mod = importlib.import_module(CHECKS[pid])
        except Exception:
            continue
        q, t = mod.plan("quick")["cases"], mod.plan("thorough")["cases"]
        evp = os.path.join(ROOT, "evidence", f"{pid}.json")
        evs = ""
        if os.path.exists(evp):
            ev = json.load(open(evp))
            evs = f"{ev['tier']} / {ev['coverage']['evaluations']} / {ev['coverage']['distinct_nontrivial']} / {ev['wall_s']}"
        lines.append(f"| {pid} | {mod.LEVEL} | {q} | {t} | {evs} |")
    block = "\n".join(lines)
    path = os.path.join(ROOT, "DESIGN.md")
    text = open(path).read()
    start, end = "<!-- VALIDATION:BEGIN -->", "<!-- VALIDATION:END -->"
    if start in text:
        text = text[: text.index(start) + len(start)] + "\n" + block + "\n" + text[text.index(end):]
    else:
        text += f"\n\n## 8. Validation record\n\n{start}\n{block}\n{end}\n"
    open(path, "w").write(text)
    print("DESIGN.md validation tables regenerated:", len(cat), "mutants,", len(os.listdir(sd)), "seeds")


if __name__ == "__main__":
    main()
