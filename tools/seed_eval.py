#!/venv/bin/python
"""Confirm and file a seeded property-breaking change produced by an independent sub-agent.

    tools/seed_eval.py <dir with patch.diff, demo.py, meta.json> <property> <seed-id> [--all-checks] [--tier quick]

In a scratch copy of /repo (mktemp -d, removed afterwards):
  1. demo on the unchanged copy must pass, 2. patch must apply, 3. demo on the changed copy must fail,
  4. the repository's own suite must still pass on the changed copy, 5. the property's check (and with
  --all-checks every check) is run with VERIF_REPO pointing at the changed copy.
If 1-4 hold the change is kept as /verif/seeded/<seed-id>/ (patch.diff, demo.py, meta.json incl. what was run).
"""
import argparse
import json
import os
import shutil
import subprocess
import sys
import tempfile
import time

ROOT = os.path.dirname(os.path.dirname(os.path.abspath(__file__)))
PY = "/venv/bin/python"
KNOWN_FAIL = ["tests/test_cli.py::test_run_bad_override", "tests/test_cli.py::test_run_bad_path",
              "tests/test_cli.py::test_run_missing_root_component_config", "tests/test_cli.py::test_run_missing_root_component_type"]


def run_demo(copy: str, demo: str, how: str) -> tuple[int, str]:
    env = dict(os.environ, PYTHONPATH=os.path.join(copy, "src"), PYTHONDONTWRITEBYTECODE="1")
    cmd = [PY, "-m", "pytest", "-q", "-p", "no:cacheprovider", demo] if how == "pytest" else [PY, demo]
    try:
        p = subprocess.run(cmd, cwd=copy, env=env, capture_output=True, text=True, timeout=300)
    except subprocess.TimeoutExpired:
        return 124, "timeout"
    return p.returncode, (p.stdout + p.stderr)[-1500:]


def run_checks(copy: str, props: list[str], tier: str, seed: str = "0") -> dict:
    out = {}
    for prop in props:
        t0 = time.time()
        env = dict(os.environ, VERIF_REPO=copy, VERIF_SEED=seed)
        p = subprocess.run([PY, os.path.join(ROOT, "run_check.py"), prop, "--tier", tier], cwd=ROOT, env=env, capture_output=True, text=True, timeout=7200)
        keys = sorted({l.split("violation[")[1].split("]:")[0] for l in p.stdout.splitlines() if "violation[" in l})
        out[prop] = {"exit": p.returncode, "killed": p.returncode == 1 and "VIOLATION" in p.stdout, "keys": keys, "wall_s": round(time.time() - t0, 1)}
        if p.returncode not in (0, 1):
            out[prop]["tail"] = p.stdout.strip().splitlines()[-4:]
    return out


def main() -> int:
    ap = argparse.ArgumentParser()
    ap.add_argument("src")
    ap.add_argument("property")
    ap.add_argument("seed_id")
    ap.add_argument("--all-checks", action="store_true")
    ap.add_argument("--tier", default="quick")
    ap.add_argument("--recheck", action="store_true", help="only re-run the checks against an already filed seed")
    a = ap.parse_args()
    src = a.src
    dest = os.path.join(ROOT, "seeded", a.seed_id)
    if a.recheck:
        src = dest
    meta = json.load(open(os.path.join(src, "meta.json")))
    how = "pytest" if "pytest" in meta.get("how_to_run_demo", "") else "script"
    tmp = tempfile.mkdtemp(prefix="asphalt_seed_")
    try:
        copy = os.path.join(tmp, "repo")
        shutil.copytree("/repo", copy, ignore=shutil.ignore_patterns(".git", "__pycache__", "*.pyc", "docs", ".pytest_cache"))
        demo = os.path.join(tmp, "demo.py" if how == "script" else "test_demo.py")
        shutil.copy(os.path.join(src, "demo.py"), demo)
        rc0, out0 = run_demo(copy, demo, how)
        ap_ = subprocess.run(["git", "apply", "--whitespace=nowarn", os.path.abspath(os.path.join(src, "patch.diff"))], cwd=copy, capture_output=True, text=True)
        if ap_.returncode != 0:
            # the repository has moved on (later fix: commits touch neighbouring lines): try again tolerating shifted context
            with open(os.path.abspath(os.path.join(src, "patch.diff"))) as fh:
                ap2 = subprocess.run(["patch", "-p1", "-F3", "--no-backup-if-mismatch", "-s"], cwd=copy, stdin=fh, capture_output=True, text=True)
            if ap2.returncode != 0:
                print(f"{a.seed_id}: patch does not apply: {ap_.stderr.strip()[:200]} / {ap2.stdout.strip()[:200]}")
                return 2
            print(f"{a.seed_id}: applied with fuzz (context lines changed by later fixes)")
        rc1, out1 = run_demo(copy, demo, how)
        env = dict(os.environ, PYTHONPATH=os.path.join(copy, "src"), PYTHONDONTWRITEBYTECODE="1")
        cmd = [PY, "-m", "pytest", "-q", "-p", "no:cacheprovider", "--timeout=600", "tests"]
        for k in KNOWN_FAIL:
            cmd += ["--deselect", k]
        st = subprocess.run(cmd, cwd=copy, env=env, capture_output=True, text=True, timeout=1800)
        suite_tail = (st.stdout.strip().splitlines() or [""])[-1]
        confirmed = rc0 == 0 and rc1 != 0 and st.returncode == 0
        print(f"{a.seed_id}: demo unchanged exit={rc0}, changed exit={rc1}; suite on changed copy: {suite_tail}; confirmed={confirmed}")
        if not confirmed and not a.recheck:
            print("   NOT KEPT (demo/suite conditions not met)")
            print(out0[-600:] if rc0 != 0 else out1[-600:])
            return 2
        props = [a.property]
        if a.all_checks:
            sys.path.insert(0, ROOT)
            from vkit.harness import CHECKS

            props = [p for p in sorted(CHECKS) if os.path.exists(os.path.join(ROOT, *CHECKS[p].split(".")) + ".py")]
        results = run_checks(copy, props, a.tier)
        for p, r in results.items():
            print(f"   {p}: {'KILLED' if r['killed'] else ('INCONCLUSIVE' if r['exit'] == 2 else 'survived')} {r['wall_s']}s {r['keys'][:5]}")
        os.makedirs(dest, exist_ok=True)
        if not a.recheck:
            shutil.copy(os.path.join(src, "patch.diff"), os.path.join(dest, "patch.diff"))
            shutil.copy(os.path.join(src, "demo.py"), os.path.join(dest, "demo.py"))
        meta.setdefault("property", a.property)
        meta["confirmed_by_me"] = {"demo_exit_unchanged": rc0, "demo_exit_changed": rc1, "suite_on_changed_copy": suite_tail,
                                   "how": "tools/seed_eval.py in a scratch copy of /repo (removed afterwards)"}
        hist = meta.setdefault("check_results", [])
        hist.append({"at_verif_commit": subprocess.run(["git", "-C", ROOT, "rev-parse", "--short", "HEAD"], capture_output=True, text=True).stdout.strip(),
                     "tier": a.tier, "results": results})
        json.dump(meta, open(os.path.join(dest, "meta.json"), "w"), indent=1)
        return 0 if results[a.property]["killed"] else 1
    finally:
        shutil.rmtree(tmp, ignore_errors=True)


if __name__ == "__main__":
    sys.exit(main())
