#!/venv/bin/python
"""Regenerates MANIFEST.json from the metadata of the check modules that exist."""
import importlib
import json
import os
import sys

ROOT = os.path.dirname(os.path.dirname(os.path.abspath(__file__)))
sys.path.insert(0, ROOT)
from vkit.harness import CHECKS  # noqa: E402

PENDING_REASON = "check not built yet (planned, see DESIGN.md section 3); not claimed until its monitor exists and is silent on the unchanged tree"


def main() -> None:
    props = [json.loads(l) for l in open(os.path.join(ROOT, "properties.jsonl"))]
    checks, na = [], []
    extra_na = {}
    na_path = os.path.join(ROOT, "tools", "not_applicable.json")
    if os.path.exists(na_path):
        extra_na = json.load(open(na_path))
    for p in props:
        pid = p["id"]
        modname = CHECKS.get(pid)
        path = os.path.join(ROOT, *modname.split(".")) + ".py" if modname else None
        if pid in extra_na:
            na.append({"property_id": pid, "reason": extra_na[pid]})
            continue
        if not path or not os.path.exists(path):
            na.append({"property_id": pid, "reason": PENDING_REASON})
            continue
        mod = importlib.import_module(modname)
        checks.append({
            "property_id": pid,
            "quick_cmd": f"/venv/bin/python run_check.py {pid} --tier quick",
            "thorough_cmd": f"/venv/bin/python run_check.py {pid} --tier thorough",
            "evidence_file": f"/verif/evidence/{pid}.json",
            "replay_cmd_template": f"/venv/bin/python run_check.py {pid} --replay {{path}}",
            "engine": getattr(mod, "ENGINE", "vkit"),
            "level_claimed": {"category": mod.LEVEL, "text": mod.LEVEL_TEXT, "design_ref": mod.DESIGN_REF},
            "level_note": mod.LEVEL_NOTE,
            "technique": mod.TECHNIQUE,
        })
    manifest = {
        "version": 1,
        "setup_cmd": "/venv/bin/python tools/setup.py",
        "hooks": {
            "guard": "ASPHALT_VERIF",
            "enable": "no source hooks are needed: monitors wrap the public API from the harness (DESIGN.md 1.10); "
                      "checks import asphalt from $VERIF_REPO/src (default /repo/src), i.e. the current working tree",
            "baseline_off_cmd": "cd /repo && /venv/bin/python -m pytest -ra -q -p no:cacheprovider --timeout=900 --continue-on-collection-errors",
            "source_commits": [],
            "add_only": True,
        },
        "engines": json.load(open(os.path.join(ROOT, "tools", "engines.json"))),
        "checks": checks,
        "not_applicable": na,
        "notes": "Technique family: runtime monitoring. Every check executes the real asphalt code from /repo's working tree under generated, "
                 "hostile and fault-injected workloads on both anyio backends in virtual time; oracles are online monitors and offline "
                 "trace checkers (DESIGN.md). Exit 2 + INCONCLUSIVE means the deciding monitors were not reached (never folded into held/violated). "
                 "known_findings.json lists genuine defects (open) and repaired ones (fixed).",
    }
    with open(os.path.join(ROOT, "MANIFEST.json"), "w") as f:
        json.dump(manifest, f, indent=1)
        f.write("\n")
    sys.path.append(os.path.join(ROOT, ".deps"))
    import jsonschema
    jsonschema.validate(manifest, json.load(open("/root/.vp/MANIFEST.schema.json")))
    print(f"MANIFEST.json: {len(checks)} checks, {len(na)} not claimed; valid")


if __name__ == "__main__":
    main()
