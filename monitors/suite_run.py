"""Runs the repository's test-suite under the contracts (one extra workload of the C11 and C17 checks)."""
from __future__ import annotations

import json
import os
import subprocess
import tempfile
from typing import Any

import vkit

KNOWN_FAIL = ["tests/test_cli.py::test_run_bad_override", "tests/test_cli.py::test_run_bad_path",
              "tests/test_cli.py::test_run_missing_root_component_config", "tests/test_cli.py::test_run_missing_root_component_type"]


def run_suite_with_contracts(contract: str) -> dict[str, Any]:
    """returns {"evaluations": n, "problems": [...], "ran": bool}"""
    fd, out = tempfile.mkstemp(prefix="verif_plugin_", suffix=".json")
    os.close(fd)
    try:
        env = dict(os.environ, VERIF_PLUGIN_OUT=out, PYTHONDONTWRITEBYTECODE="1",
                   PYTHONPATH=os.pathsep.join([os.path.join(vkit.REPO, "src"), vkit.ROOT, os.path.join(vkit.ROOT, "fixtures")]))
        cmd = [vkit.PYTHON, "-m", "pytest", "-q", "-p", "no:cacheprovider", "-p", "monitors.pytest_plugin", "--timeout=600", "tests"]
        for k in KNOWN_FAIL:
            cmd += ["--deselect", k]
        subprocess.run(cmd, cwd=vkit.REPO, env=env, capture_output=True, text=True, timeout=1200)
        try:
            data = json.load(open(out))
        except Exception:
            return {"evaluations": 0, "problems": [], "ran": False}
        return {"evaluations": data["evaluations"].get(contract, 0), "problems": [p for p in data["problems"] if p.get("contract") == contract], "ran": True}
    finally:
        if os.path.exists(out):
            os.unlink(out)
