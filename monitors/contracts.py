"""icontract post-conditions on the real pure functions (PM-merge for C17, PM-channel for C11).

The conditions *record and return True*, so a firing contract never changes the behaviour it
observes; the recorded problems are collected by whichever check (or the pytest plugin) is
running.  Evaluations are counted: zero evaluations => the contract proves nothing.
"""
from __future__ import annotations

import sys
from typing import Any

import vkit  # noqa: F401  (paths)

if vkit.DEPS not in sys.path:
    sys.path.append(vkit.DEPS)

import icontract  # noqa: E402

from models.merge import canon, model_merge  # noqa: E402


class ContractLog:
    def __init__(self) -> None:
        self.evaluations: dict[str, int] = {}
        self.problems: list[dict[str, Any]] = []

    def count(self, name: str) -> None:
        self.evaluations[name] = self.evaluations.get(name, 0) + 1

    def problem(self, name: str, **kw: Any) -> None:
        if len(self.problems) < 200:
            self.problems.append({"contract": name, **kw})

    def drain(self) -> list[dict[str, Any]]:
        p, self.problems = self.problems, []
        return p


LOG = ContractLog()


class MergeBroken(Exception):
    pass


class ChannelBroken(Exception):
    pass


# ---------------------------------------------------------------- PM-merge (C17)


def _snap_original(original: Any) -> Any:
    return canon(original)


def _snap_overrides(overrides: Any) -> Any:
    return canon(overrides)


def _snap_model(original: Any, overrides: Any) -> Any:
    try:
        return canon(model_merge(original, overrides))
    except Exception as exc:  # the model only covers dict / None inputs
        return ("model-error", repr(exc))


def merge_post(original: Any, overrides: Any, result: Any, OLD: Any) -> bool:
    LOG.count("merge_config")
    if OLD.model[0] == "model-error":
        return True
    if canon(result) != OLD.model:
        LOG.problem("merge_config", key="merge-result", msg="result differs from the reference deep merge",
                    original=repr(original)[:300], overrides=repr(overrides)[:300], result=repr(result)[:300])
    if canon(original) != OLD.orig:
        LOG.problem("merge_config", key="merge-mutates-original", msg="'original' was modified",
                    before=repr(OLD.orig)[:300], after=repr(original)[:300])
    if canon(overrides) != OLD.over:
        LOG.problem("merge_config", key="merge-mutates-overrides", msg="'overrides' was modified",
                    before=repr(OLD.over)[:300], after=repr(overrides)[:300])
    if result is original or result is overrides:
        LOG.problem("merge_config", key="merge-returns-argument", msg="result is one of the arguments")
    return True


def install_merge_contract() -> None:
    import asphalt.core
    from asphalt.core import _cli, _component, _utils

    if getattr(_utils.merge_config, "__verif_contract__", False):
        return
    orig = _utils.merge_config
    wrapped = icontract.snapshot(_snap_original, name="orig", enabled=True)(
        icontract.snapshot(_snap_overrides, name="over", enabled=True)(
            icontract.snapshot(_snap_model, name="model", enabled=True)(
                icontract.ensure(merge_post, error=MergeBroken, enabled=True)(orig)
            )
        )
    )
    wrapped.__verif_contract__ = True  # type: ignore[attr-defined]
    wrapped.__verif_original__ = orig  # type: ignore[attr-defined]
    for m in (_utils, _component, _cli, asphalt.core):
        if getattr(m, "merge_config", None) is orig:
            setattr(m, "merge_config", wrapped)


# ---------------------------------------------------------------- PM-channel (C11)

_channel_seen: dict[tuple[int, int], tuple[Any, Any]] = {}


def channel_post(self: Any, instance: Any, owner: Any, result: Any) -> bool:
    LOG.count("Signal.__get__")
    if instance is None:
        if result is not self:
            LOG.problem("Signal.__get__", key="class-access", msg="class-level access did not return the declaration")
        return True
    topic = getattr(self, "_topic", None)
    if getattr(result, "_topic", None) != topic:
        LOG.problem("Signal.__get__", key="channel-topic",
                    msg=f"bound signal for attribute {topic!r} carries topic {getattr(result, '_topic', None)!r}",
                    owner=type(instance).__name__)
    if getattr(result, "event_class", None) is not self.event_class:
        LOG.problem("Signal.__get__", key="channel-event-class",
                    msg=f"bound signal for attribute {topic!r} carries event class "
                        f"{getattr(result, 'event_class', None)!r}, declared {self.event_class!r}",
                    owner=type(instance).__name__)
    ref = getattr(result, "_instance", None)
    if ref is None or ref() is not instance:
        LOG.problem("Signal.__get__", key="channel-instance",
                    msg=f"bound signal for attribute {topic!r} is bound to another instance",
                    owner=type(instance).__name__)
    return True


def install_channel_contract() -> None:
    from asphalt.core import _event

    cur = _event.Signal.__dict__["__get__"]
    if getattr(cur, "__verif_contract__", False):
        return
    wrapped = icontract.ensure(channel_post, error=ChannelBroken, enabled=True)(cur)
    wrapped.__verif_contract__ = True  # type: ignore[attr-defined]
    _event.Signal.__get__ = wrapped  # type: ignore[method-assign]
