"""pytest plugin: runs the repository's own test-suite with the runtime contracts on
(`-p monitors.pytest_plugin`, PYTHONPATH containing /verif and $VERIF_REPO/src).

The contracts record and never raise, so the suite's own verdicts are unchanged; what they saw is
written to $VERIF_PLUGIN_OUT at the end of the session.
"""
from __future__ import annotations

import json
import os

import vkit  # noqa: F401
from monitors import contracts


def pytest_configure(config):  # type: ignore[no-untyped-def]
    contracts.install_merge_contract()
    contracts.install_channel_contract()


def pytest_sessionfinish(session, exitstatus):  # type: ignore[no-untyped-def]
    out = os.environ.get("VERIF_PLUGIN_OUT")
    if out:
        with open(out, "w") as f:
            json.dump({"evaluations": contracts.LOG.evaluations, "problems": contracts.LOG.problems, "exitstatus": int(exitstatus)}, f, default=repr)
