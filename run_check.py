#!/venv/bin/python
"""Entry point of every registered check:  run_check.py C07 --tier quick [--seed N] [--replay f]

Exit 0: property held on everything explored.  Exit 1 + "VIOLATION property=<id> replay=<path>":
violated.  Exit 2 + "INCONCLUSIVE ...": the deciding monitors were not (sufficiently) reached.
Honours VERIF_SEED, VERIF_TIER, VERIF_REPO (tree under test, default /repo), VERIF_JOBS.
"""
import argparse
import os
import sys

sys.path.insert(0, os.path.dirname(os.path.abspath(__file__)))

from vkit.harness import CHECKS, replay, run_check  # noqa: E402


def main() -> int:
    ap = argparse.ArgumentParser()
    ap.add_argument("property", choices=sorted(CHECKS))
    ap.add_argument("--tier", default=None, choices=["quick", "thorough"])
    ap.add_argument("--seed", type=int, default=None)
    ap.add_argument("--replay", default=None)
    ap.add_argument("--jobs", type=int, default=None)
    a = ap.parse_args()
    if a.replay:
        return replay(a.property, a.replay)
    tier = a.tier or os.environ.get("VERIF_TIER") or "quick"
    if tier not in ("quick", "thorough"):
        tier = "quick"
    try:
        seed = a.seed if a.seed is not None else int(os.environ.get("VERIF_SEED") or 0)
    except ValueError:
        seed = 0
    return run_check(a.property, tier, seed, a.jobs)


if __name__ == "__main__":
    sys.exit(main())
