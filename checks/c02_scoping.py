"""C02 - resources are scoped to the context tree: snapshot down, nothing up or sideways.

Deciding method: histories of create-child / enter / add / add-factory / lookup / leave over real
context trees (engine E1, actor per context) are replayed in lock-step on a reference model; after
every command the whole visible set of every constructed or open context is compared with the model
through get_resources() for every type, and explicit lookup steps through all six lookup paths
(method / module shortcut / @inject, sync and async) must return the model's object (identity).
"""
from __future__ import annotations

from typing import Any

from checks import _e1_common as common
from vkit.harness import case_rng

PROPERTY = "C02"
LEVEL = "exploration"
ENGINE = "E1 context-tree actors"
ANCHORS = [
    "asphalt.core._context:Context.__init__",
    "asphalt.core._context:Context.get_resource_nowait",
    "asphalt.core._context:Context.get_resource",
    "asphalt.core._context:Context.get_resources",
]
RULE = (
    "random histories (60-150 commands) over context trees up to depth 5 / 12 simultaneously open contexts / 2 roots; children "
    "constructed with explicit or implicit parent, entered immediately or later (after the parent has changed); resources under 0-3 "
    "types from a pool of 6 classes (incl. a subclass pair) and names from a pool of 3 (+ invalid ones); sync/async factories with 1-3 types; "
    "lookups through 6 API paths. "
    "Short-lived contexts with a foreign explicit parent are entered and left inside another context's task; factories may build instances of exactly another pool class. "
    "Non-trivial: >= 3 contexts and > 3 distinct model states; distinct = (tree shape, set of model-state hashes).")
DECIDING = {
    "visible_set_comparisons": "whole-tree visible-set comparisons performed",
    "entered_after_parent_changed": "child constructed early and entered later",
    "generations_in_child_context": "factory inherited by a child generated there",
    "lookup_via_inject_sync": "injected lookups (sync)",
    "lookup_via_inject_async": "injected lookups (async)",
    "lookup_via_async_shortcut": "module-level shortcut lookups",
    "contexts_left": "contexts left while others stay open",
    "sibling_sequences_teardown_raises": "a context created right after a sibling whose teardown raised",
    "contexts_driven_through_component_context": "contexts whose commands go through a ComponentContext (component start())",
}
ASSUMPTIONS = [
    "types are looked up by exact class (the statement does not mention subclass matching); a subclass pair is in the pool to make the APIs agree on that",
    "ComponentContext parents are exercised by the C05/C12 checks, not here",
]


def plan(tier: str) -> dict[str, Any]:
    n = 800 if tier == "quick" else 100000
    return {"cases": n, "budget_s": 90 if tier == "quick" else 1500, "min_per_shard": 20}


def gen_case(idx: int, seed: int, tier: str) -> Any:
    if idx % 40 == 11:
        # *crowded* tables: a parent that holds 64-300 resources and factories when its child is created
        rng = case_rng(PROPERTY, seed, idx)
        return {"kind": "crowded", "backend": rng.choice(["asyncio", "trio"]), "factories": rng.choice([0, 10, 64, 65, 130, 300]),
                "resources": rng.choice([0, 10, 64, 65, 130, 300]), "child_adds_own_first": rng.random() < 0.5}
    return {"seed": f"{seed}:{idx}", "want_sample": idx % 97 == 0,
            "weights": {"construct": 14, "enter": 8, "leave": 5, "add_resource": 22, "add_factory": 12, "lookup": 36, "race": 0}}


async def crowded_scenario(case: dict[str, Any], out: dict[str, Any]) -> None:
    from asphalt.core import Context, ResourceNotFound

    class Thing:
        def __init__(self, tag: str) -> None:
            self.tag = tag

    class Other:
        pass

    V = out["violations"]

    def bad(key: str, msg: str) -> None:
        if not any(v["key"] == key for v in V):
            V.append({"key": key, "msg": msg, "witness": {"case": case}})

    async def all_paths(ctx: Any, type_: Any, name: str) -> list[Any]:
        got: list[Any] = [ctx.get_resource_nowait(type_, name, optional=True), await ctx.get_resource(type_, name, optional=True),
                          ctx.get_resources(type_).get(name)]
        try:
            got.append(ctx.get_resource_nowait(type_, name))
        except ResourceNotFound:
            got.append(None)
        return got

    nf, nr = case["factories"], case["resources"]
    async with Context() as parent:
        statics = {}
        for i in range(nr):
            statics[i] = Thing(f"static{i}")
            parent.add_resource(statics[i], f"s{i}")
        for i in range(nf):
            parent.add_resource_factory(lambda i=i: Thing(f"made{i}"), f"f{i}", types=[Thing])
        child = Context()  # its view of the parent is fixed now
        late_static, late_other = Thing("late-static"), Other()
        async with child:
            if case["child_adds_own_first"]:
                child.add_resource_factory(lambda: Thing("child-own"), "own", types=[Thing])
                child.add_resource(Other(), "own")
            parent.add_resource(late_static, "late")
            parent.add_resource_factory(lambda: Thing("late-made"), "late_f", types=[Thing])
            parent.add_resource(late_other)
            if not case["child_adds_own_first"]:
                child.add_resource_factory(lambda: Thing("child-own"), "own", types=[Thing])
                child.add_resource(Other(), "own")
            grandchild = Context()
            async with grandchild:
                for who, ctx in (("child", child), ("grandchild", grandchild)):
                    for type_, name in ((Thing, "late"), (Thing, "late_f"), (Other, "default")):
                        seen = await all_paths(ctx, type_, name)
                        if any(x is not None for x in seen):
                            bad("visible[late-add-on-parent]", f"with {nr} resources and {nf} factories in the parent when the child was created: what the parent got afterwards "
                                                               f"(({type_.__name__}, {name!r})) is visible in the {who}: {seen}")
                    # what was there when the child was created is visible: the static resources by identity, the factories by a product
                    # of the asking context's own
                    for i in sorted({0, nr // 2, nr - 1} & set(range(nr))):
                        seen = await all_paths(ctx, Thing, f"s{i}")
                        if any(x is not statics[i] for x in seen):
                            bad("visible[inherited]", f"static resource s{i} of the parent (of {nr}) is not what the {who} sees: {seen}")
                    for i in sorted({0, nf // 2, nf - 1} & set(range(nf))):
                        seen = await all_paths(ctx, Thing, f"f{i}")
                        if any(not isinstance(x, Thing) or x.tag != f"made{i}" or x is not seen[0] for x in seen):
                            bad("visible[inherited,gen]", f"factory f{i} of the parent (of {nf}) does not serve the {who}: {[getattr(x, 'tag', x) for x in seen]}")
            # what the child added is its own: the parent (and its table) knows nothing of it
            for type_, name in ((Thing, "own"), (Other, "own")):
                seen = await all_paths(parent, type_, name)
                if any(x is not None for x in seen):
                    bad("visible[child-add-in-parent]", f"what the child added (({type_.__name__}, {name!r})) is visible in the parent: {seen}")
        seen = await all_paths(parent, Thing, "late")
        if any(x is not late_static for x in seen):
            bad("visible[own]", f"the parent does not see its own late resource: {seen}")
    c = out["counters"]
    c["crowded_parents"] = 1
    if nf > 64:
        c["crowded_parents_with_more_than_64_factories"] = 1
    if nr > 64:
        c["crowded_parents_with_more_than_64_resources"] = 1


def run_case(case: Any) -> dict[str, Any]:
    if case.get("kind") == "crowded":
        from vkit.vtime import VirtualDeadlock, run_virtual

        out: dict[str, Any] = {"violations": [], "counters": {}}
        try:
            run_virtual(case["backend"], crowded_scenario, case, out)
        except VirtualDeadlock as e:
            out["violations"].append({"key": "history-deadlock", "msg": str(e), "witness": {"case": case}})
        return {"violations": out["violations"], "sig": ("crowded", repr(sorted(case.items()))), "nontrivial": True, "counters": out["counters"], "sample": None}
    return common.run_case(PROPERTY, case)


LEVEL_TEXT = (
    "Reference-model differential at run time: the real Context tree and a persistent-map model are stepped in lock-step over random "
    "histories; after every command the complete visible set of every constructed/open context (all pool types) and the result of every "
    "lookup path are compared with the model by object identity. Held on the histories produced (sampled, both backends)."
)
LEVEL_NOTE = "Trusted: models/ctxtree.py (written from the statement), the actor harness. Tree depth <= 5, <= 12 open contexts, 10 types (classes, a subclass pair, a generic alias in two spellings, an Annotated alias, a PEP 604 union object) x 5 names (two of them differing only up to Unicode normalisation) in the random histories; parents with 64-300 resources / factories in the crowded cases."
TECHNIQUE = "lock-step reference model + whole-state comparison after every operation on real context trees"
DESIGN_REF = "DESIGN.md section 3, C02"
