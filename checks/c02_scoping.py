"""C02 - resources are scoped to the context tree: snapshot down, nothing up or sideways.

Deciding method: histories of create-child / enter / add / add-factory / lookup / leave over real
context trees (engine E1, actor per context) are replayed in lock-step on a reference model; after
every command the whole visible set of every constructed or open context is compared with the model
through get_resources() for every type, and explicit lookup steps through all six lookup paths
(method / module shortcut / @inject, sync and async) must return the model's object (identity).
"""
from __future__ import annotations

from typing import Any

from checks import _e1_common as common

PROPERTY = "C02"
LEVEL = "exploration"
ENGINE = "E1 context-tree actors"
ANCHORS = [
    "asphalt.core._context:Context.__init__",
    "asphalt.core._context:Context.get_resource_nowait",
    "asphalt.core._context:Context.get_resource",
    "asphalt.core._context:Context.get_resources",
]
RULE = (
    "random histories (60-150 commands) over context trees up to depth 5 / 12 simultaneously open contexts / 2 roots; children "
    "constructed with explicit or implicit parent, entered immediately or later (after the parent has changed); resources under 0-3 "
    "types from a pool of 6 classes (incl. a subclass pair) and names from a pool of 3 (+ invalid ones); sync/async factories with 1-3 types; "
    "lookups through 6 API paths. "
    "Short-lived contexts with a foreign explicit parent are entered and left inside another context's task; factories may build instances of exactly another pool class. "
    "Non-trivial: >= 3 contexts and > 3 distinct model states; distinct = (tree shape, set of model-state hashes).")
DECIDING = {
    "visible_set_comparisons": "whole-tree visible-set comparisons performed",
    "entered_after_parent_changed": "child constructed early and entered later",
    "generations_in_child_context": "factory inherited by a child generated there",
    "lookup_via_inject_sync": "injected lookups (sync)",
    "lookup_via_inject_async": "injected lookups (async)",
    "lookup_via_async_shortcut": "module-level shortcut lookups",
    "contexts_left": "contexts left while others stay open",
    "sibling_sequences_teardown_raises": "a context created right after a sibling whose teardown raised",
    "contexts_driven_through_component_context": "contexts whose commands go through a ComponentContext (component start())",
}
ASSUMPTIONS = [
    "types are looked up by exact class (the statement does not mention subclass matching); a subclass pair is in the pool to make the APIs agree on that",
    "ComponentContext parents are exercised by the C05/C12 checks, not here",
]


def plan(tier: str) -> dict[str, Any]:
    n = 800 if tier == "quick" else 100000
    return {"cases": n, "budget_s": 90 if tier == "quick" else 1500, "min_per_shard": 20}


def gen_case(idx: int, seed: int, tier: str) -> Any:
    return {"seed": f"{seed}:{idx}", "want_sample": idx % 97 == 0,
            "weights": {"construct": 14, "enter": 8, "leave": 5, "add_resource": 22, "add_factory": 12, "lookup": 36, "race": 0}}


def run_case(case: Any) -> dict[str, Any]:
    return common.run_case(PROPERTY, case)


LEVEL_TEXT = (
    "Reference-model differential at run time: the real Context tree and a persistent-map model are stepped in lock-step over random "
    "histories; after every command the complete visible set of every constructed/open context (all pool types) and the result of every "
    "lookup path are compared with the model by object identity. Held on the histories produced (sampled, both backends)."
)
LEVEL_NOTE = "Trusted: models/ctxtree.py (written from the statement), the actor harness. Tree depth <= 5, <= 12 open contexts, 6 types x 3 names."
TECHNIQUE = "lock-step reference model + whole-state comparison after every operation on real context trees"
DESIGN_REF = "DESIGN.md section 3, C02"
