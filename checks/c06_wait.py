"""C06 - waiting for a resource during startup has no lost or false wake-ups.

Deciding method: wait-heavy component-tree programs (engine E2) are started with the real
start_component in virtual time on both backends: 1-4 waiters x 1-4 publishers with the publication
before / in the same scheduling round as / after the request (0-2 injected yields either side),
decoys sharing the name or the type, static / factory / multi-type publications, default-name
remapping through `kind/name` aliases, and bursts of up to 200 unrelated publications without a
checkpoint right before the awaited one.  Oracle: every wait step must complete at exactly its
longest-path virtual time (max(request, first matching publication)), never before the publication,
with the published object (or the factory's product); optional and outside-startup lookups must be
immediate (same scheduling round, zero virtual time).
"""
from __future__ import annotations

from typing import Any

import vkit  # noqa: F401
from engines import e2_components as e2
from vkit.harness import case_rng

PROPERTY = "C06"
LEVEL = "exploration"
ENGINE = "E2 component-tree programs"
ANCHORS = ["asphalt.core._component:ComponentContext.get_resource", "asphalt.core._context:Context.add_resource",
           "asphalt.core._context:Context.add_resource_factory", "asphalt.core._event:stream_events", "asphalt.core._event:wait_event"]
RULE = (
    "random trees as in C05 generated wait-heavy (45% of the steps are waits on earlier publications, 30% publications of kinds static / "
    "factory / multi-type, 0-2 yields before each request and each publication, bursts of 5/49/60/200 unrelated publications before a "
    "publication in 1/3 of them, aliases with `/name` suffix publishing `default` in start()); timeout None / 1e6; asyncio and trio (seeded, "
    "half fully shuffled). Non-trivial: at least one wait had to block (request observed before the publication); distinct = interleaving signature."
)
DECIDING = {
    "abandoned_generation_waiters_served": "components served although the requester that had started the asynchronous generation gave up half-way",
    "crowd_waiters_released": "components released in scenarios with 2-6 components waiting at once while siblings publish in bursts",
    "crowd_scenarios_with_a_slow_listener": "... with a slow long-lived listener (queue of 1 or 3) on resource_added",
    "waits_that_blocked": "request before publication (waiter really waited)",
    "waits_already_published": "publication before request",
    "waits_same_instant": "request and publication at the same virtual instant (ordering decided by the scheduler)",
    "waits_on_factory": "match by resource factory",
    "waits_on_async_factory": "match by an asynchronous resource factory",
    "waits_on_multi": "match by a multi-type resource",
    "waits_on_remapped": "match by default-name remapping",
    "waits_after_burst_50plus": "a burst of >= 50 unrelated publications while a waiter was blocked",
    "optional_lookups": "optional lookups (must be immediate)",
    "conflicting_multi_type_publications": "a rejected multi-type publication whose first type others wait for",
    "waits_for_falsy_values": "awaited resources whose value is a falsy object",
    "outside_lookups": "lookups outside component startup (must fail immediately)",
    "wait_steps_timed": "wait steps compared with the exact schedule",
    "timed_waits_abandoned": "waits given up by the component (cancelled while blocked) before the publication",
}
ASSUMPTIONS = ["dependencies are acyclic by construction; a waiter whose resource is never published is not generated (C07 covers the timeout)"]

OWNED_PREFIXES = ("wait-", "start-deadlock", "start-timeout", "start-raised", "start-crash")


def plan(tier: str) -> dict[str, Any]:
    n = 5000 if tier == "quick" else 600000
    return {"cases": n, "budget_s": 90 if tier == "quick" else 1500, "min_per_shard": 50}


def gen_case(idx: int, seed: int, tier: str) -> Any:
    rng = case_rng(PROPERTY, seed, idx)
    if idx % 16 == 11:
        return {"kind": "abandoned", "backend": rng.choice(["asyncio", "trio"]), "sched_seed": rng.randrange(1 << 30), "shuffle": rng.random() < 0.5,
                "gen_time": rng.choice([0.5, 1.0, 2.0]), "give_up_after": rng.choice([0.25, 0.75]), "second_request_at": rng.choice([0.125, 0.1875, 0.375]),  # (after the quitter's request, so that the generation is the quitter's)
                "how": rng.choice(["timeout", "factory_raises"]), "others": rng.randint(1, 3), "published_before": rng.random() < 0.5}
    if idx % 8 == 5:
        n = rng.randint(2, 6)
        order = list(range(n))
        rng.shuffle(order)
        return {"kind": "crowd", "backend": rng.choice(["asyncio", "trio"]), "sched_seed": rng.randrange(1 << 30), "shuffle": rng.random() < 0.5,
                "waiters": n, "burst": rng.choice([0, 3, 49, 50, 51, 60, 120]), "order": order, "yields": [rng.randint(0, 2) for _ in range(n)],
                "publishers": rng.choice([1, 2, 3]), "second_burst": rng.choice([0, 0, 55]), "listener_queue": rng.choice([None, 1, 3]), "two_trees": rng.random() < 0.3, "double": rng.random() < 0.4}
    tree = e2.gen_tree(rng, wait_heavy=True, max_nodes=rng.choice([4, 6, 10]), p_remap=0.3, with_services=False)
    if rng.random() < 0.04:
        # a very wide component: 33-130 children that all wait at once for what the child declared last publishes
        fan = rng.choice([33, 65, 70, 130])
        tree = e2.add_funnel(e2.gen_tree(rng, max_depth=1, max_nodes=fan + 2, root_fan=fan, with_services=False, wait_heavy=True), rng)
    return {"backend": rng.choice(["asyncio", "trio"]), "sched_seed": rng.randrange(1 << 30), "shuffle": rng.random() < 0.5,
            "timeout": rng.choice([None, 1e6]), "tree": tree}


async def crowd_scenario(case: dict[str, Any], out: dict[str, Any]) -> None:
    """several components are blocked in get_resource() at once, each for a resource of its own; one to three sibling components
    then publish - after a burst of unrelated publications - the awaited resources one after the other at one virtual instant,
    with a few scheduling rounds in between (so that woken waiters re-subscribe while others' queues are still full).  Optionally
    a long-lived listener with a small queue sits on resource_added.  Every waiter must be released at that very instant."""
    import anyio
    from anyio.lowlevel import checkpoint
    from asphalt.core import Component, Context, add_resource, get_resource, start_component

    n = case["waiters"]
    types = [type(f"Awaited{i}", (), {}) for i in range(n)]
    objs = [types[i]() for i in range(n)]
    Unrelated = type("Unrelated", (), {})  # noqa: N806
    t0 = [0.0]
    done: dict[int, Any] = out["done"]

    types2 = [type(f"AlsoAwaited{i}", (), {}) for i in range(n)]
    objs2 = [types2[i]() for i in range(n)]

    def make_waiter(i: int) -> Any:
        async def start(self: Any) -> None:
            if case.get("double") and i % 2 == 0:
                # this component has two requests waiting at the same time (two of its own tasks): each gets what it asked for
                results: dict[str, Any] = {}

                async def ask(key: str, T: Any) -> None:
                    results[key] = await get_resource(T)

                async with anyio.create_task_group() as wtg:
                    wtg.start_soon(ask, "a", types[i])
                    wtg.start_soon(ask, "b", types2[i])
                done[i] = (anyio.current_time() - t0[0], results.get("a") is objs[i] and results.get("b") is objs2[i])
                return
            got = await get_resource(types[i])
            done[i] = (anyio.current_time() - t0[0], got is objs[i])

        return type(f"Waiter{i}", (Component,), {"start": start})

    def make_publisher(k: int) -> Any:
        mine = [i for pos, i in enumerate(case["order"]) if pos % case["publishers"] == k]

        async def start(self: Any) -> None:
            await anyio.sleep(1)
            if k == 0:
                for b in range(case["burst"]):
                    add_resource(Unrelated(), f"burst_{b}")
            for i in mine:
                for _ in range(case["yields"][i]):
                    await checkpoint()
                add_resource(objs[i])
                if case.get("double") and i % 2 == 0:
                    add_resource(objs2[i])
                if case["second_burst"] and i == mine[0]:
                    for b in range(case["second_burst"]):
                        add_resource(Unrelated(), f"burst2_{k}_{b}")

        return type(f"Publisher{k}", (Component,), {"start": start})

    class Root(Component):
        def __init__(self) -> None:
            for i in range(n):
                self.add_component(f"w{i}", make_waiter(i))
            for k in range(case["publishers"]):
                self.add_component(f"p{k}", make_publisher(k))

    # (two independent trees may well use the same aliases: `c0` of one tree has nothing to do with `c0` of the other)
    class WaiterTree(Component):
        def __init__(self) -> None:
            for i in range(n):
                self.add_component(f"c{i}", make_waiter(i))

    class PublisherTree(Component):
        def __init__(self) -> None:
            for k in range(case["publishers"]):
                self.add_component(f"c{k}", make_publisher(k))

    async def start_all() -> None:
        if case.get("two_trees"):
            # the waiting components and the publishing ones belong to two component trees started concurrently in one context:
            # "any component" that publishes releases a waiter
            async with anyio.create_task_group() as stg:
                stg.start_soon(lambda: start_component(WaiterTree, timeout=None))
                stg.start_soon(lambda: start_component(PublisherTree, timeout=None))
        else:
            await start_component(Root, timeout=None)

    async with Context() as ctx:
        async with anyio.create_task_group() as tg:
            if case["listener_queue"] is not None:
                ready = anyio.Event()

                async def listener() -> None:
                    # an application-level listener that is slow: its small queue is full most of the time
                    async with ctx.resource_added.stream_events(max_queue_size=case["listener_queue"]) as stream:
                        ready.set()
                        async for _ in stream:
                            await anyio.sleep(0.5)

                tg.start_soon(listener)
                await ready.wait()
            t0[0] = anyio.current_time()
            try:
                with anyio.fail_after(100):
                    await start_all()
                out["returned_at"] = anyio.current_time() - t0[0]
            except BaseException as e:
                out["error"] = e
            tg.cancel_scope.cancel()


async def abandoned_scenario(case: dict[str, Any], out: dict[str, Any]) -> None:
    """one component requests a resource made by a slow asynchronous factory and gives up half-way (its own timeout strikes, or
    the factory's first run raises) while 1-3 sibling components are waiting for the very same resource: they must all get it
    - one object - instead of staying blocked behind the abandoned generation"""
    import anyio
    from asphalt.core import Component, Context, add_resource_factory, get_resource, start_component

    calls = [0]
    t0 = [0.0]

    class Res:
        pass

    async def factory() -> Res:
        calls[0] += 1
        n = calls[0]
        if case["how"] == "factory_raises" and n == 1:
            await anyio.sleep(case["give_up_after"])
            raise RuntimeError("first generation failed")
        await anyio.sleep(case["gen_time"])
        return Res()

    class Publisher(Component):
        async def start(self) -> None:
            add_resource_factory(factory, types=[Res])

    class Quitter(Component):
        async def start(self) -> None:
            try:
                if case["how"] == "timeout":
                    with anyio.move_on_after(case["give_up_after"]):
                        await get_resource(Res)
                else:
                    await get_resource(Res)
            except RuntimeError:
                out["quitter_saw_failure"] = True

    def make_other(i: int) -> Any:
        async def start(self: Any) -> None:
            await anyio.sleep(case["second_request_at"] + 0.0625 * i)
            got = await get_resource(Res)
            out["got"][i] = (got, anyio.current_time() - t0[0])

        return type(f"Other{i}", (Component,), {"start": start})

    class Root(Component):
        def __init__(self) -> None:
            self.add_component("publisher", Publisher)
            self.add_component("quitter", Quitter)
            for i in range(case["others"]):
                self.add_component(f"other{i}", make_other(i))

        async def prepare(self) -> None:
            if case["published_before"]:
                add_resource_factory(factory, "early", types=[Res])  # (another name: only to vary what is in the context)

    async with Context() as ctx:
        t0[0] = anyio.current_time()
        try:
            with anyio.fail_after(100):
                await start_component(Root, timeout=None)
            out["returned_at"] = anyio.current_time() - t0[0]
        except BaseException as e:
            out["error"] = e
        else:
            out["later"] = await ctx.get_resource(Res)
    out["calls"] = calls[0]


def run_abandoned(case: dict[str, Any]) -> dict[str, Any]:
    from vkit.trace import describe_exc
    from vkit.vtime import VirtualDeadlock, run_virtual

    out: dict[str, Any] = {"got": {}}
    V: list[dict[str, Any]] = []

    def bad(key: str, msg: str) -> None:
        V.append({"key": key, "msg": f"a requester gave up ({case['how']}) while {case['others']} component(s) waited for the same factory-made resource: {msg}",
                  "witness": {"case": case, "outcome": {k: (describe_exc(v) if isinstance(v, BaseException) else repr(v)) for k, v in out.items()}}})

    try:
        run_virtual(case["backend"], abandoned_scenario, case, out, sched_seed=case["sched_seed"], shuffle=case["shuffle"])
    except VirtualDeadlock as e:
        bad("start-deadlock", f"start-up never finished: {e}")
    if not V:
        if "error" in out:
            bad("start-timeout" if isinstance(out["error"], TimeoutError) else "start-raised", f"start_component ended with {describe_exc(out['error'])}; served: {sorted(out['got'])}")
        else:
            objs = [o for o, _ in out["got"].values()]
            if len(objs) != case["others"]:
                bad("wait-never-released", f"only {len(objs)} of {case['others']} waiting components were served")
            elif any(o is not out.get("later") for o in objs):
                bad("wait-wrong-object", "the waiting components did not all receive the object the context returns afterwards")
    c = {"abandoned_generation_scenarios": 1, "abandoned_generation_waiters_served": len(out["got"])}
    return {"violations": V[:3], "sig": ("abandoned", tuple(sorted((k, str(v)) for k, v in case.items()))), "nontrivial": True, "counters": c, "sample": None}


def run_crowd(case: dict[str, Any]) -> dict[str, Any]:
    import warnings

    from vkit.trace import describe_exc
    from vkit.vtime import VirtualDeadlock, run_virtual

    out: dict[str, Any] = {"done": {}}
    V: list[dict[str, Any]] = []

    def bad(key: str, msg: str) -> None:
        V.append({"key": key, "msg": f"{case['waiters']} components waiting at once, burst of {case['burst']}: {msg}",
                  "witness": {"case": case, "done": {str(k): v for k, v in out["done"].items()}, "error": describe_exc(out.get("error"))}})

    try:
        with warnings.catch_warnings():
            warnings.simplefilter("ignore")
            run_virtual(case["backend"], crowd_scenario, case, out, sched_seed=case["sched_seed"], shuffle=case["shuffle"])
    except VirtualDeadlock as e:
        bad("start-deadlock", f"start-up never finished: {e}")
    if not V:
        if "error" in out:
            bad("start-timeout" if isinstance(out["error"], TimeoutError) else "start-raised", f"start_component ended with {describe_exc(out['error'])}; released: {sorted(out['done'])}")
        else:
            for i in range(case["waiters"]):
                t, same = out["done"].get(i, (None, None))
                if t is None:
                    bad("wait-never-released", f"waiter {i} was never released")
                elif abs(t - 1.0) > 1e-9:
                    bad("wait-wrong-time", f"waiter {i} was released at virtual time {t}, its resource was published at 1.0")
                elif not same:
                    bad("wait-wrong-object", f"waiter {i} got another object than the one published")
    c = {"crowd_scenarios": 1, "crowd_waiters_released": len(out["done"])}
    if case["burst"] >= 50 or case["second_burst"]:
        c["crowd_scenarios_with_burst_50plus"] = 1
    if case["listener_queue"] is not None:
        c["crowd_scenarios_with_a_slow_listener"] = 1
    if case.get("two_trees"):
        c["crowd_scenarios_with_two_component_trees"] = 1
    if case.get("double"):
        c["crowd_scenarios_with_components_having_two_requests_waiting_at_once"] = 1
    return {"violations": V[:3], "sig": ("crowd", tuple(sorted((k, str(v)) for k, v in case.items()))), "nontrivial": True, "counters": c, "sample": None}


def run_case(case: Any) -> dict[str, Any]:
    if case.get("kind") == "crowd":
        return run_crowd(case)
    if case.get("kind") == "abandoned":
        return run_abandoned(case)
    run = e2.execute(case)
    V, c = e2.check_success(run)
    tree = case["tree"]
    res = tree["resources"]
    ev = run.trace.events
    pub = {e["rid"]: e for e in ev if e["kind"] == "published"}
    for e in ev:
        if e["kind"] == "wait-end":
            r = res[e["rid"]]
            if r["kind"] in ("factory", "afactory"):
                c["waits_on_factory"] = c.get("waits_on_factory", 0) + 1
            if r["kind"] == "afactory":
                c["waits_on_async_factory"] = c.get("waits_on_async_factory", 0) + 1
            if r["kind"] == "multi":
                c["waits_on_multi"] = c.get("waits_on_multi", 0) + 1
            if r["given_name"] != r["name"]:
                c["waits_on_remapped"] = c.get("waits_on_remapped", 0) + 1
            if int(e["rid"]) % 3 == 0:
                c["waits_for_falsy_values"] = c.get("waits_for_falsy_values", 0) + 1
            wb = next((b for b in ev if b["kind"] == "wait-begin" and b["actor"] == e["actor"] and b["rid"] == e["rid"] and b["seq"] < e["seq"]), None)
            p = pub.get(e["rid"])
            if wb is not None and p is not None:
                if wb["vt"] == p["vt"]:
                    c["waits_same_instant"] = c.get("waits_same_instant", 0) + 1
                if wb["seq"] < p["seq"]:
                    # burst while blocked?
                    for n in tree["nodes"].values():
                        for phase in ("prepare", "start"):
                            for st in n[phase]:
                                if st[0] == "publish" and len(st) > 3 and st[3] >= 50 and str(st[1]) in pub and wb["seq"] < pub[str(st[1])]["seq"] <= p["seq"]:
                                    c["waits_after_burst_50plus"] = c.get("waits_after_burst_50plus", 0) + 1
        elif e["kind"] == "outside-lookup":
            c["outside_lookups"] = c.get("outside_lookups", 0) + 1
    mine = []
    for v in V:
        if v["key"].startswith(OWNED_PREFIXES):
            # mechanism classifier: a lost wake-up after a burst that overflowed the waiter's queue
            mine.append(v)
        else:
            c[f"cross_firing[{v['key']}]"] = 1
    c["programs"] = 1
    sample = None
    if c.get("waits_that_blocked", 0) >= 2 and len(run.trace) < 80:
        sample = {"tree": e2.summarize(tree), "backend": case["backend"], "trace": run.trace.compact(80)}
    return {"violations": mine, "sig": run.trace.signature(), "nontrivial": c.get("waits_that_blocked", 0) > 0, "counters": c, "sample": sample}


LEVEL_TEXT = (
    "Runtime trace checking in virtual time: for every wait step of generated multi-waiter / multi-publisher start-up programs the observed "
    "virtual completion time must equal max(request time, time of the first matching publication) exactly, the returned object must be the "
    "published one, and nothing may return before its publication; lost wake-ups surface deterministically as virtual deadlock or TimeoutError. "
    "Interleavings come from randomised durations, injected yields at harness-owned suspension points and seeded/shuffled trio scheduling. "
    "Held on the executions produced."
)
LEVEL_NOTE = "Trusted: engines/e2_components.py, the virtual clocks. asyncio's FIFO ready queue is not permuted; no yield is injected inside asphalt code."
TECHNIQUE = "exact virtual-time schedule oracle on wait steps + deadlock detection, yield injection and seeded scheduler for interleavings"
DESIGN_REF = "DESIGN.md section 3, C06"
