"""C19 - @inject is equivalent to explicit lookups in the current context.

Deciding method: function sources mixing ordinary, keyword-only and injected parameters are generated
and compiled with exec (annotation spellings T, Optional[T], Union[T, None], T | None, None | T, each
also as a string; module-level and function-local classes; sync and async), decorated with the real
@inject while some *other* context is current, and called inside generated context states (resource
static / made by a sync factory / made by an async factory / inherited / missing; nested contexts;
spawned tasks).  The body returns its locals(); the oracle is differential: the same lookups done
explicitly (get_resource for coroutine functions, get_resource_nowait for plain ones) in the same
context - before the call in half of the cases, after it in the others - must give the identical
objects, or the same exception class with the body never run.  Markers on positional-only,
un-annotated or un-called `resource` defaults must be rejected with TypeError at decoration.
"""
from __future__ import annotations

from typing import Any

import anyio
from anyio import create_task_group

import vkit  # noqa: F401
from vkit.harness import case_rng
from vkit.trace import describe_exc
from vkit.vtime import VirtualDeadlock, run_virtual

PROPERTY = "C19"
LEVEL = "exploration"
ENGINE = "E7 differential"
ANCHORS = ["asphalt.core._context:inject", "asphalt.core._context:resource"]
SPELLINGS = ["T", "Optional[T]", "Union[T, None]", "T | None", "None | T", "Union[None, T]",
             # typing constructs that *contain* a string forward reference (the annotation itself is not a string)
             "Optional['T']", "Union['T', None]",
             # typing.Annotated metadata anywhere in the annotation says nothing about the type or about optionality
             "Annotated[T, 1]", "Optional[Annotated[T, 1]]", "Annotated[Optional[T], 1]", "Annotated[T, 1] | None"]


def is_optional(spelling: str) -> bool:
    return "None" in spelling or "Optional" in spelling

STATES = ["static", "sync_factory", "async_factory", "awaitable_factory", "inherited_static", "inherited_factory", "missing",
          "factory_raises_notfound"]
RULE = (
    "random signatures: 0-3 ordinary positional parameters (with/without defaults), optional *args, 0-2 keyword-only ordinary parameters, "
    "optional **kw, 1-4 injected parameters (positional-or-keyword or keyword-only; names from {default, a, b}; annotation spelling one of "
    f"{SPELLINGS}, as objects or as strings; classes at module level or local to an enclosing function), sync or async; each injected "
    f"resource in one of the states {STATES}; decorated while another context is current; called in a root context, a nested context or a "
    "spawned task; explicit lookups before or after the call. Plus the decoration-time rejection matrix. "
    "Forward references that only exist after the first call; extra positional arguments into *args in front of keyword-only injected parameters; functions without any marker. "
    "Non-trivial: >= 2 injected parameters or ")
DECIDING = {
    "calls_with_extra_positional_args": "calls passing additional positional arguments into *args in front of keyword-only injected parameters",
    "first_call_failed_on_unresolved_forward_ref": "functions first called while a forward reference in their annotations did not exist yet, then called again",
    "calls_compared": "decorated calls compared with explicit lookups",
    "injected_params_compared": "injected parameters compared by identity",
    "string_annotations": "string (forward-reference) annotations",
    "pep604_annotations": "PEP 604 spellings",
    "annotated_annotations": "annotations carrying typing.Annotated metadata (around the type, around the Optional, inside it)",
    "calls_in_a_context_allocated_at_the_address_of_a_dead_one": "the same function called again in a new context that was allocated at the address of an earlier, dead one",
    "calls_waiting_in_a_starting_component": "injected coroutine functions called from a starting component before a sibling published their resources (must wait like get_resource does there)",
    "optional_missing_none": "optional parameter with nothing matching (must be None)",
    "missing_raises_before_body": "missing non-optional resource (ResourceNotFound before the body runs)",
    "factory_made": "resource produced by a factory during the injected call or before it",
    "async_factory_in_sync_function": "sync function asking for an async factory's resource (AsyncResourceError both ways)",
    "inherited": "resource inherited from the parent context",
    "awaitable_factory_in_async_function": "factory returning a non-coroutine awaitable, injected into a coroutine function",
    "called_in_spawned_task": "calls from spawned tasks",
    "called_in_nested_context": "calls from nested contexts",
    "concurrent_call_pairs": "the same injected function called concurrently from two tasks in two different contexts",
    "factory_raised_notfound": "a factory that itself raises ResourceNotFound (must propagate even for an optional parameter)",
    "inner_forward_refs": "typing constructs containing a string forward reference",
    "local_classes": "function-local classes referenced by annotations",
    "decoration_rejections": "invalid markers that must be rejected at decoration time",
    "decorated_in_context_still_open_at_call": "decorated inside a context that is still open (but not current) at call time",
    "ordinary_args_checked": "ordinary arguments compared (pass-through)",
}
ASSUMPTIONS = ["injected parameters are never passed explicitly; unions of more than two members are not generated (DESIGN.md section 4)"]


class RA:
    pass


class RB:
    def __bool__(self) -> bool:  # resources of this type are falsy objects
        return False


class RC:
    pass


# a resource type that is no class but a typing alias - one with None among its arguments, which makes it no Optional
RD = __import__("typing").Callable[..., None]
MODULE_TYPES = {"RA": RA, "RB": RB, "RC": RC, "RD": RD}


def new_value(T: Any) -> Any:
    return T() if isinstance(T, type) else (lambda *a, **k: None)
# (any \w+ is a legal resource name, also one that is no Python identifier; "@enum" stands for a member of a str-mixin Enum - a
# string like any other that happens to have a str() of its own - handed to resource(), add_resource() and the lookups alike)
NAMES = ["default", "a", "b", "2nd", "7", "@enum"]


class ResourceNames(str, __import__("enum").Enum):
    primary = "primary"


def rname(n: str) -> Any:
    return ResourceNames.primary if n == "@enum" else n


def gen_signature(rng: Any) -> dict[str, Any]:
    n_pos = rng.randint(0, 3)
    pos = [{"name": f"p{i}", "default": (rng.random() < 0.4)} for i in range(n_pos)]
    # defaults must be trailing
    seen_default = False
    for p in pos:
        seen_default = seen_default or p["default"]
        p["default"] = seen_default
    inj = []
    used = set()
    for i in range(rng.randint(1, 4)):
        t = rng.choice(["RA", "RA", "RB", "RB", "RC", "RC", "RD"])
        name = rng.choice(NAMES)
        twin = next((j for j in inj if (j["type"], j["name"]) == (t, name)), None)
        if twin is not None and (rng.random() < 0.7 or twin["state"] not in ("static", "missing", "inherited_static")):
            continue  # (now and then the same resource is injected into two parameters - say once as optional, once as required)
        used.add((t, name))
        spelling = rng.choice(SPELLINGS)
        inj.append({"arg": f"r{i}", "type": t, "name": name, "spelling": spelling, "as_string": rng.random() < 0.4,
                    "kwonly": rng.random() < 0.5, "state": rng.choice(STATES) if twin is None else "twin_of:" + twin["arg"],
                    "explicit_default_name": rng.random() < 0.5})
    # a later optional parameter whose resource only comes into being as a side effect of generating an earlier one (a
    # connection factory that also publishes its cache): lookups happen in the order of the parameters
    order = [i for i in inj if not i["kwonly"]] + [i for i in inj if i["kwonly"]]
    has_twins = any(i["state"].startswith("twin_of:") for i in inj)
    if len(order) >= 2 and rng.random() < 0.2 and not has_twins:
        a, b = order[0], order[-1]
        a["state"] = rng.choice(["sync_factory", "async_factory"])
        b["state"] = "side_effect_of:" + a["arg"]
        if not is_optional(b["spelling"]):
            b["spelling"] = "Optional[T]"
    local_classes = rng.random() < 0.3
    if rng.random() < 0.2:
        # one annotation is a forward reference to a module-level name that is only defined after the function was called once
        inj[0]["late"] = True
        inj[0]["as_string"] = True
    return {"pos": pos, "var_args": rng.random() < 0.3, "kwonly": [f"k{i}" for i in range(rng.randint(0, 2))], "var_kw": rng.random() < 0.3,
            "inj": inj, "is_async": rng.random() < 0.5, "local_classes": local_classes, "future_annotations": rng.random() < 0.3,
            "stacked": (not local_classes) and rng.random() < 0.15,
            # (a stacked *asynchronous* wrapper may wrap a plain function - as @context_teardown wraps an async generator function: what
            # @inject decorates is the coroutine function on top)
            "stacked_over_plain": rng.random() < 0.5,
            # the decorated function is a *method* (as the tutorial's `@inject async def run(self, *, mailer: Mailer = resource())`),
            # called through an instance
            "as_method": rng.random() < 0.2}


def build_source(sig: dict[str, Any]) -> str:
    def ann(i: dict[str, Any]) -> str:
        s = i["spelling"].replace("T", ("Late" if i.get("late") else "") + i["type"])
        return repr(s) if i["as_string"] else s

    def marker(i: dict[str, Any]) -> str:
        if i["name"] == "default" and not i["explicit_default_name"]:
            return "resource()"
        if i["name"] == "@enum":
            return "resource(ENUM_NAME)"
        return f"resource({i['name']!r})"

    params = []
    for p in sig["pos"]:
        params.append(p["name"] + (f"='d_{p['name']}'" if p["default"] else ""))
    pk_inj = [i for i in sig["inj"] if not i["kwonly"]]
    # positional-or-keyword injected parameters come after the ordinary positional ones (they have defaults)
    if not any(p["default"] for p in sig["pos"]) or True:
        for i in pk_inj:
            params.append(f"{i['arg']}: {ann(i)} = {marker(i)}")
    if sig["var_args"]:
        params.append("*args")
    kw = [f"{k}='d_{k}'" for k in sig["kwonly"]] + [f"{i['arg']}: {ann(i)} = {marker(i)}" for i in sig["inj"] if i["kwonly"]]
    if kw and not sig["var_args"]:
        params.append("*")
    params.extend(kw)
    if sig["var_kw"]:
        params.append("**kw")
    head = ("async def" if sig["is_async"] else "def") + f" target({', '.join(params)}):"
    body = ["    BODY_RUNS.append(1)", "    return dict(locals())"]
    lines = []
    if sig["future_annotations"]:
        lines.append("from __future__ import annotations")
    lines.append("from typing import Annotated, Optional, Union")
    if sig["local_classes"]:
        lines.append("def make():")
        for t in ("RA", "RB", "RC", "RD"):
            lines.append(f"    class {t}: pass")
        lines.append("    @inject")
        lines.append("    " + head)
        lines.extend("    " + b for b in body)
        lines.append("    return target, {'RA': RA, 'RB': RB, 'RC': RC, 'RD': RD}")
        lines.append("target, TYPES = make()")
    elif sig.get("stacked"):
        # @inject on top of another decorator that uses functools.wraps: the wrapper itself takes (*args, **kwargs); the
        # markers and annotations are those of the function it wraps
        lines.append("import functools")
        over_plain = sig["is_async"] and sig.get("stacked_over_plain")
        lines.append((head.replace("async def", "def", 1) if over_plain else head).replace(" target(", " _inner("))
        lines.extend(body)
        lines.append("@inject")
        lines.append("@functools.wraps(_inner)")
        if over_plain:
            lines.append("async def target(*args, **kwargs):")
            lines.append("    return _inner(*args, **kwargs)")
        elif sig["is_async"]:
            lines.append("async def target(*args, **kwargs):")
            lines.append("    return await _inner(*args, **kwargs)")
        else:
            lines.append("def target(*args, **kwargs):")
            lines.append("    return _inner(*args, **kwargs)")
        lines.append("TYPES = {'RA': RA, 'RB': RB, 'RC': RC, 'RD': RD}")
    elif sig.get("as_method"):
        lines.append("class Holder:")
        lines.append("    @inject")
        lines.append("    " + head.replace(" target(", " target(self, ", 1))
        lines.append("        BODY_RUNS.append(1)")
        lines.append("        seen = dict(locals())")
        lines.append("        del seen['self']")
        lines.append("        return seen")
        lines.append("target = Holder().target")
        lines.append("TYPES = {'RA': RA, 'RB': RB, 'RC': RC, 'RD': RD}")
    else:
        lines.append("@inject")
        lines.append(head)
        lines.extend(body)
        lines.append("TYPES = {'RA': RA, 'RB': RB, 'RC': RC, 'RD': RD}")
    return "\n".join(lines) + "\n"


class Produced:
    def __init__(self, key: Any, n: int) -> None:
        self.key, self.n = key, n

    def __bool__(self) -> bool:
        return self.key[0] != "RC"


async def scenario(case: dict[str, Any], out: dict[str, Any]) -> None:
    from asphalt.core import Context, inject, resource

    sig = case["sig"]
    V: list[dict[str, Any]] = out["violations"]
    cnt: dict[str, int] = out["counters"]

    def inc(k: str, n: int = 1) -> None:
        cnt[k] = cnt.get(k, 0) + n

    def bad(key: str, msg: str) -> None:
        if len(V) < 5:
            V.append({"key": key, "msg": msg, "witness": {"source": out.get("source"), "case": {k: v for k, v in case.items()}}})

    body_runs: list[int] = []
    ns: dict[str, Any] = {"inject": inject, "resource": resource, "BODY_RUNS": body_runs, "ENUM_NAME": ResourceNames.primary, **MODULE_TYPES}
    src = build_source(sig)
    out["source"] = src
    # decorate while some unrelated context is current: the decoration-time context must not matter.  Either that
    # context is closed again before the call, or (decorate_in == "open") it is still open when the function is called
    # in another context.
    deco_cm = Context()
    try:
        deco_ctx = await deco_cm.__aenter__()
        deco_ctx.add_resource(RA(), "default")
        deco_ctx.add_resource(RB(), "a")
        deco_ctx.add_resource(RC(), "b")
        exec(compile(src, "<generated>", "exec", dont_inherit=True), ns)  # (do not inherit this module's `from __future__ import annotations`)
    except Exception as e:
        bad("inject-decoration-failed", f"decorating a valid signature raised {describe_exc(e)}")
        await deco_cm.__aexit__(None, None, None)
        return
    if case.get("decorate_in") != "open":
        await deco_cm.__aexit__(None, None, None)
        deco_cm = None
    else:
        inc("decorated_in_context_still_open_at_call")
        # leave it open, but it must not be the *current* context of the calls below: run them in a fresh task
    target = ns["target"]
    TYPES = ns["TYPES"]
    factory_calls: dict[Any, int] = {}

    # resolution follows the order of the parameters in the signature
    ordered_inj = [i for i in sig["inj"] if not i["kwonly"]] + [i for i in sig["inj"] if i["kwonly"]]

    slow = [0.0]  # how long asynchronous factories take (virtual seconds)

    def side_effects_of(arg: str) -> None:
        from asphalt.core import current_context

        for j in sig["inj"]:
            if j["state"] == "side_effect_of:" + arg:
                cur = current_context()
                Tj = TYPES[j["type"]]
                if cur.get_resource_nowait(Tj, rname(j["name"]), optional=True) is None:
                    cur.add_resource(new_value(Tj), rname(j["name"]), types=[Tj])
                    inc("resources_published_as_a_side_effect_of_a_generation")

    def setup(ctx: Any, inherited: bool) -> None:
        """register what belongs into ctx: the inherited states go into the parent (before the child is created)"""
        for i in sig["inj"]:
            T, name, state = TYPES[i["type"]], rname(i["name"]), i["state"]
            key = (i["type"], i["name"])
            if state.startswith("inherited") != inherited:
                continue
            where = ctx
            if state in ("static", "inherited_static"):
                where.add_resource(new_value(T), name, types=[T])
            elif state in ("sync_factory", "inherited_factory"):
                def sf(key: Any = key, arg: str = i["arg"]) -> Any:
                    factory_calls[key] = factory_calls.get(key, 0) + 1
                    side_effects_of(arg)
                    return Produced(key, factory_calls[key])

                where.add_resource_factory(sf, name, types=[T])
            elif state == "factory_raises_notfound":
                # a factory whose own (nested) dependency is missing: the ResourceNotFound it raises is not "nothing matches"
                def failing(key: Any = key, T: Any = T) -> Any:
                    from asphalt.core import ResourceNotFound

                    factory_calls[key] = factory_calls.get(key, 0) + 1
                    raise ResourceNotFound(T, "inner_dependency_of_the_factory")

                where.add_resource_factory(failing, name, types=[T])
            elif state == "awaitable_factory":
                # a plain callable returning a non-coroutine awaitable: the async API awaits it, the sync API hands it out as is
                class Fut:
                    def __init__(self, key: Any) -> None:
                        self.key = key

                    def __await__(self) -> Any:
                        factory_calls[self.key] = factory_calls.get(self.key, 0) + 1
                        yield from anyio.sleep(0).__await__()
                        return Produced(self.key, factory_calls[self.key])

                where.add_resource_factory(lambda key=key: Fut(key), name, types=[T])
            elif state == "async_factory":
                async def af(key: Any = key, arg: str = i["arg"]) -> Any:
                    factory_calls[key] = factory_calls.get(key, 0) + 1
                    await anyio.sleep(slow[0])
                    side_effects_of(arg)
                    return Produced(key, factory_calls[key])

                where.add_resource_factory(af, name, types=[T])

    async def explicit(ctx: Any) -> tuple[dict[str, Any], BaseException | None]:
        res: dict[str, Any] = {}
        for i in ordered_inj:
            T = TYPES[i["type"]]
            optional = is_optional(i["spelling"])
            try:
                if sig["is_async"]:
                    res[i["arg"]] = await ctx.get_resource(T, rname(i["name"]), optional=optional) if optional else await ctx.get_resource(T, rname(i["name"]))
                else:
                    res[i["arg"]] = ctx.get_resource_nowait(T, rname(i["name"]), optional=optional) if optional else ctx.get_resource_nowait(T, rname(i["name"]))
            except Exception as e:
                return res, e
        return res, None

    pos_args = [f"v_{p['name']}" for p in sig["pos"] if not p["default"] or case["pass_defaults"]]
    # extra *args can only be passed positionally *after* the positional-or-keyword injected parameters, which would
    # mean passing injected parameters explicitly: excluded (DESIGN.md section 4)
    extra_args: tuple[str, ...] = ()
    if sig["var_args"] and all(i["kwonly"] for i in sig["inj"]) and len(pos_args) == len(sig["pos"]):
        # every injected parameter is keyword-only: additional positional arguments simply land in *args
        extra_args = tuple(f"x{j}" for j in range(case.get("n_extra_args", 3)))
        pos_args = pos_args + list(extra_args)
    kw_args = {k: f"v_{k}" for k in sig["kwonly"] if case["pass_kwonly"]}
    if sig["var_kw"]:
        kw_args["extra_kw"] = "v_extra"

    async def call_and_compare(ctx: Any) -> None:
        from asphalt.core import current_context

        if current_context() is not ctx:
            bad("inject-harness", "harness: wrong current context")
        used_context_ids.append(id(ctx))
        before: tuple[dict[str, Any], BaseException | None] | None = None
        late = [i for i in sig["inj"] if i.get("late")]
        if late and ("Late" + late[0]["type"]) not in ns:
            # the forward reference cannot be resolved yet: whatever this call does, once the name exists the function must
            # behave like explicit lookups
            try:
                r0 = target(*pos_args, **kw_args)
                if sig["is_async"]:
                    await r0
            except Exception:
                inc("first_call_failed_on_unresolved_forward_ref")
            for t in ("RA", "RB", "RC", "RD"):
                ns["Late" + t] = TYPES[t]
        if case["explicit_first"]:
            before = await explicit(ctx)
        n_body = len(body_runs)
        try:
            got = target(*pos_args, **kw_args)
            if sig["is_async"]:
                got = await got
            exc: BaseException | None = None
        except Exception as e:
            got, exc = None, e
        body_ran = len(body_runs) > n_body
        after = await explicit(ctx)
        exp_vals, exp_exc = before if before is not None else after
        inc("calls_compared")
        if exp_exc is not None:
            if exc is None:
                bad("inject-should-raise", f"explicit lookups raise {describe_exc(exp_exc)} but the injected call returned normally")
            elif type(exc) is not type(exp_exc):
                bad("inject-wrong-exception", f"explicit lookups raise {describe_exc(exp_exc)} but the injected call raised {describe_exc(exc)}")
            if body_ran:
                bad("inject-body-ran", "the function body ran although a required resource could not be resolved")
            if type(exp_exc).__name__ == "ResourceNotFound":
                inc("missing_raises_before_body")
                if any(i["state"] == "factory_raises_notfound" for i in sig["inj"]):
                    inc("factory_raised_notfound")
            if type(exp_exc).__name__ == "AsyncResourceError":
                inc("async_factory_in_sync_function")
            return
        if exc is not None:
            bad("inject-unexpected-exception", f"explicit lookups succeed but the injected call raised {describe_exc(exc)}")
            return
        if not isinstance(got, dict):
            bad("inject-return", f"the decorated function returned {got!r}, not what the original returns")
            return
        # both explicit passes must agree with each other (cached / static) and with the injected values
        for i in sig["inj"]:
            a = i["arg"]
            inc("injected_params_compared")
            if a not in got:
                bad("inject-param-missing", f"parameter {a} not bound")
                continue
            for label, vals in (("before", before[0] if before else None), ("after", after[0])):
                if vals is None:
                    continue
                if got[a] is not vals.get(a):
                    bad("inject-differs", f"parameter {a} ({i['spelling']} of {i['type']}, name {i['name']!r}, state {i['state']}) received {got[a]!r} but the "
                                          f"explicit lookup {label} the call returns {vals.get(a)!r}")
            if "Annotated" in i["spelling"]:
                inc("annotated_annotations")
            if is_optional(i["spelling"]) and i["state"] == "missing":
                inc("optional_missing_none")
                if got[a] is not None:
                    bad("inject-optional-not-none", f"optional parameter {a} with nothing matching received {got[a]!r}")
            if i["state"] in ("sync_factory", "async_factory", "inherited_factory", "awaitable_factory") and isinstance(got[a], Produced):
                inc("factory_made")
            if i["state"] == "awaitable_factory" and sig["is_async"]:
                inc("awaitable_factory_in_async_function")
                if not isinstance(got[a], Produced):
                    bad("inject-differs", f"parameter {a}: a factory returning an awaitable object was not awaited by the injected coroutine function: got {got[a]!r}")
            if i["state"].startswith("inherited"):
                inc("inherited")
            if i["as_string"] or sig["future_annotations"]:
                inc("string_annotations")
            if "|" in i["spelling"]:
                inc("pep604_annotations")
            if "'" in i["spelling"]:
                inc("inner_forward_refs")
        # ordinary arguments pass through unchanged
        for p, v in zip([p for p in sig["pos"]], pos_args):
            inc("ordinary_args_checked")
            if got.get(p["name"]) != v:
                bad("inject-ordinary-arg", f"ordinary argument {p['name']} arrived as {got.get(p['name'])!r}, passed {v!r}")
        for p in sig["pos"][len(pos_args):]:
            if got.get(p["name"]) != f"d_{p['name']}":
                bad("inject-ordinary-arg", f"default of ordinary parameter {p['name']} arrived as {got.get(p['name'])!r}")
        for k in sig["kwonly"]:
            want = f"v_{k}" if case["pass_kwonly"] else f"d_{k}"
            inc("ordinary_args_checked")
            if got.get(k) != want:
                bad("inject-ordinary-arg", f"keyword-only argument {k} arrived as {got.get(k)!r}, expected {want!r}")
        if sig["var_kw"] and got.get("kw") != {"extra_kw": "v_extra"}:
            bad("inject-ordinary-arg", f"**kw arrived as {got.get('kw')!r}")
        if sig["var_args"]:
            if extra_args:
                inc("calls_with_extra_positional_args")
            if got.get("args") != extra_args:
                bad("inject-ordinary-arg", f"*args arrived as {got.get('args')!r}, passed {extra_args!r}")

    site = case["site"]
    used_context_ids: list[int] = []

    async def run_calls() -> None:
        await run_calls_inner()

    async def run_calls_inner() -> None:
      async with Context(None) as root:
          root.add_resource(RC(), "unrelated")
          if site == "concurrent":
              inc("concurrent_call_pairs")
              setup(root, True)
              started = anyio.Event()

              ends: dict[bool, float] = {}
              timed = sig["is_async"] and any(i["state"] == "async_factory" for i in sig["inj"])
              if timed:
                  slow[0] = 5.0  # (asynchronous factories take their time: the two calls run side by side all the same)

              async def in_own_context(first: bool) -> None:
                  async with Context() as own:
                      setup(own, False)
                      if not first:
                          await started.wait()
                      else:
                          started.set()
                      await call_and_compare(own)
                      ends[first] = anyio.current_time()

              async with create_task_group() as tg2:
                  tg2.start_soon(in_own_context, True)
                  tg2.start_soon(in_own_context, False)
              slow[0] = 0.0
              if timed and len(ends) == 2:
                  inc("concurrent_call_pairs_with_slow_factories")
                  if abs(ends[True] - ends[False]) > 1e-9:
                      bad("inject-differs", f"two calls of the injected function made side by side in two sibling contexts (each generating its own "
                                            f"resources, which takes the same time in both) ended at virtual times {sorted(ends.values())}: one of them "
                                            f"had to wait for the other, which explicit lookups never do")
          elif site == "root":
              setup(root, False)
              # 'inherited' states make no sense in a root context: they are placed nowhere -> behave as missing
              await call_and_compare(root)
          else:
              setup(root, True)
              left_child = anyio.Event()
              late_done = anyio.Event()

              async def late_call(ctx: Any) -> None:
                  # a task that was spawned inside the block (its current context is `ctx`) into a task group that outlives it
                  # calls the function after the block was left: just like explicit lookups there, the call is refused
                  await left_child.wait()
                  try:
                      inc("calls_made_after_the_current_context_was_closed")
                      await call_and_compare(ctx)
                  finally:
                      late_done.set()

              async with create_task_group() as outliving:
                async with Context() as child:
                  setup(child, False)
                  if site == "nested" and case.get("n_extra_args", 0) % 2:
                      outliving.start_soon(late_call, child)
                  else:
                      late_done.set()
                  if site == "nested":
                      inc("called_in_nested_context")
                      await call_and_compare(child)
                  else:
                      inc("called_in_spawned_task")
                      async with create_task_group() as tg:
                          tg.start_soon(call_and_compare, child)
                left_child.set()
                await late_done.wait()
    if deco_cm is not None:
        # the decoration context is still open and current in this task; the calls run in a task whose current
        # context is reset so that the root below is a real root
        from asphalt.core._context import _current_context

        tok = _current_context.set(None)
        try:
            await run_calls()
        finally:
            _current_context.reset(tok)
        await deco_cm.__aexit__(None, None, None)
    else:
        await run_calls()
    if deco_cm is None and used_context_ids:
        # the contexts of the calls above are gone; a new, unrelated context that happens to be allocated at the address of one of
        # them (CPython reuses freed blocks at once) is a context of its own: the call sees *its* resources
        import gc

        gc.collect()
        spares: list[Any] = []
        reborn = None
        for _ in range(64):
            cand = Context(None)
            if id(cand) in used_context_ids:
                reborn = cand
                break
            spares.append(cand)
        del spares
        if reborn is not None:
            inc("calls_in_a_context_allocated_at_the_address_of_a_dead_one")
            async with reborn:
                setup(reborn, False)
                await call_and_compare(reborn)
        del reborn
    if sig["is_async"] and deco_cm is None and ordered_inj and ordered_inj[0]["state"] == "async_factory":
        # the caller gives up while the first injected resource is still being generated: exactly as with an explicit
        # `await get_resource(...)` in its place, the cancellation takes effect there and the function body never runs
        async with Context(None) as probe_ctx:
            setup(probe_ctx, False)
            slow[0] = 5.0
            n_body = len(body_runs)
            try:
                with anyio.move_on_after(1.0) as scope:
                    await target(*pos_args, **kw_args)
            except Exception as e:
                bad("inject-unexpected-exception", f"a call abandoned after 1 virtual second while its first resource takes 5 to generate raised {describe_exc(e)}")
            else:
                inc("calls_cancelled_during_a_suspended_lookup")
                if not scope.cancelled_caught:
                    bad("inject-differs", "a call whose first resource takes 5 virtual seconds to generate completed although the caller gave up after 1")
                elif len(body_runs) > n_body:
                    bad("inject-body-ran", "the function body ran although the call was cancelled while its first injected resource was still being generated")
            slow[0] = 0.0
    waitable = ("static", "sync_factory", "async_factory", "awaitable_factory")
    if (sig["is_async"] and deco_cm is None and ordered_inj and not is_optional(ordered_inj[0]["spelling"])
            and all(i["state"] in waitable for i in sig["inj"])):
        # the context current at call time is that of a starting component: there get_resource() waits until some component
        # has published the resource, and so does the injected call; the sibling publishes everything in one go after one
        # virtual second, so the first (non-optional) lookup waits until then and all the others find theirs
        from asphalt.core import Component, current_context, start_component

        seen: dict[str, Any] = {}

        class Caller(Component):
            async def start(self) -> None:
                t0 = anyio.current_time()
                n_body = len(body_runs)
                try:
                    got = await target(*pos_args, **kw_args)
                except Exception as e:
                    seen["exc"] = e
                    return
                seen["waited"] = anyio.current_time() - t0
                seen["body_ran"] = len(body_runs) > n_body
                seen["got"] = got
                seen["explicit"] = await explicit(current_context())

        class Publisher(Component):
            async def start(self) -> None:
                await anyio.sleep(1.0)
                setup(current_context(), False)

        class Parent(Component):
            def __init__(self) -> None:
                self.add_component("caller", Caller)
                self.add_component("publisher", Publisher)

        async with Context(None):
            try:
                await start_component(Parent, timeout=None)
            except Exception as e:
                bad("inject-unexpected-exception", f"a component tree in which one component calls the injected function and its sibling publishes the "
                                                   f"resources a second later failed to start: {describe_exc(e)}")
            else:
                inc("calls_waiting_in_a_starting_component")
                if "exc" in seen:
                    bad("inject-unexpected-exception", f"called from a starting component one virtual second before a sibling publishes the resources, the "
                                                       f"injected call raised {describe_exc(seen['exc'])}; get_resource() waits there")
                elif abs(seen["waited"] - 1.0) > 1e-9 or not seen["body_ran"]:
                    bad("inject-differs", f"called from a starting component one virtual second before a sibling publishes the resources, the injected call "
                                          f"returned after {seen['waited']} virtual seconds (body ran: {seen['body_ran']})")
                else:
                    exp_vals, exp_exc = seen["explicit"]
                    for i in sig["inj"]:
                        if exp_exc is not None or seen["got"].get(i["arg"]) is not exp_vals.get(i["arg"]):
                            bad("inject-differs", f"in a starting component, parameter {i['arg']} received {seen['got'].get(i['arg'])!r} but the explicit lookup "
                                                  f"returns {exp_vals.get(i['arg'])!r} (exception: {describe_exc(exp_exc) if exp_exc else None})")
                            break
    if sig["local_classes"]:
        inc("local_classes")
    if sig.get("stacked"):
        inc("inject_stacked_over_a_wraps_decorator")
    if sig.get("as_method") and not sig["local_classes"] and not sig.get("stacked"):
        inc("inject_on_methods_called_through_an_instance")
        if sig["is_async"] and sig.get("stacked_over_plain"):
            inc("inject_on_a_coroutine_function_that_wraps_a_plain_function")


def rejection_matrix(out: dict[str, Any]) -> None:
    from asphalt.core import inject, resource

    V, cnt = out["violations"], out["counters"]
    ns = {"inject": inject, "resource": resource, **MODULE_TYPES}
    bad_sources = {
        "positional-only": "@inject\ndef f(r: RA = resource(), /):\n    return r\n",
        "positional-only-async": "@inject\nasync def f(a, r: RA = resource('a'), /, b=1):\n    return r\n",
        "unannotated": "@inject\ndef f(r=resource()):\n    return r\n",
        "unannotated-kwonly": "@inject\nasync def f(*, r=resource('a')):\n    return r\n",
        "uncalled-marker": "@inject\ndef f(r: RA = resource):\n    return r\n",
        "uncalled-marker-kwonly": "@inject\nasync def f(a, *, r: RB = resource):\n    return r\n",
    }
    for name, src in bad_sources.items():
        cnt["decoration_rejections"] = cnt.get("decoration_rejections", 0) + 1
        try:
            import warnings

            with warnings.catch_warnings():
                warnings.simplefilter("ignore")
                exec(compile(src, f"<reject-{name}>", "exec", dont_inherit=True), dict(ns))
        except TypeError:
            continue
        except Exception as e:
            V.append({"key": f"inject-rejection[{name}]", "msg": f"decorating a {name} marker raised {describe_exc(e)} instead of TypeError", "witness": {"source": src}})
        else:
            V.append({"key": f"inject-rejection[{name}]", "msg": f"a {name} `resource` marker was accepted when the decorator was applied", "witness": {"source": src}})


    # a function without any marker: the decorated function must still behave as the original (all arguments pass through)
    import warnings as _w

    for name, src, call in (
        ("no-markers-sync", "@inject\ndef f(a, b=2, *args, k='k', **kw):\n    return (a, b, args, k, kw)\n", lambda f: f(1, 5, 6, 7, k="x", z=1)),
        ("no-markers-defaults", "@inject\ndef f(a, b=2, *, k='k'):\n    return (a, b, (), k, {})\n", lambda f: f(1)),
    ):
        cnt["functions_without_markers"] = cnt.get("functions_without_markers", 0) + 1
        want = {"no-markers-sync": (1, 5, (6, 7), "x", {"z": 1}), "no-markers-defaults": (1, 2, (), "k", {})}[name]
        try:
            with _w.catch_warnings():
                _w.simplefilter("ignore")
                ns2 = dict(ns)
                exec(compile(src, f"<{name}>", "exec", dont_inherit=True), ns2)
                got = call(ns2["f"])
            if got != want:
                V.append({"key": "inject-ordinary-arg", "msg": f"a function without markers decorated with @inject returned {got!r}, the original returns {want!r}", "witness": {"source": src}})
        except Exception as e:
            V.append({"key": "inject-unexpected-exception", "msg": f"a function without markers decorated with @inject: {describe_exc(e)}", "witness": {"source": src}})


def plan(tier: str) -> dict[str, Any]:
    n = 8000 if tier == "quick" else 800000
    return {"cases": n, "budget_s": 90 if tier == "quick" else 1500, "min_per_shard": 50}


def gen_case(idx: int, seed: int, tier: str) -> Any:
    rng = case_rng(PROPERTY, seed, idx)
    # (the rejection matrix runs every 23rd case: coprime with the number of shards, so that it also runs in those started with -O)
    return {"sig": gen_signature(rng), "site": rng.choice(["root", "nested", "nested", "task", "concurrent"]), "explicit_first": rng.random() < 0.5,
            "pass_defaults": rng.random() < 0.5, "pass_kwonly": rng.random() < 0.5, "backend": rng.choice(["asyncio", "trio"]),
            "rejections": idx % 23 == 0, "decorate_in": rng.choice(["closed", "closed", "open"]), "n_extra_args": rng.choice([1, 2, 3, 5])}


def run_case(case: Any) -> dict[str, Any]:
    import warnings

    out: dict[str, Any] = {"violations": [], "counters": {}}
    with warnings.catch_warnings():
        warnings.simplefilter("ignore")
        try:
            run_virtual(case["backend"], scenario, case, out)
        except VirtualDeadlock as e:
            out["violations"].append({"key": "inject-deadlock", "msg": str(e), "witness": {"case": case, "source": out.get("source")}})
        if case.get("rejections"):
            rejection_matrix(out)
    sig = case["sig"]
    nontrivial = len(sig["inj"]) >= 2 or any(i["state"] != "static" for i in sig["inj"])
    sample = None
    if len(sig["inj"]) >= 3 and sig["local_classes"]:
        sample = {"source": out.get("source"), "states": {i["arg"]: i["state"] for i in sig["inj"]}, "site": case["site"], "explicit_first": case["explicit_first"]}
    return {"violations": out["violations"], "sig": (out.get("source"), [i["state"] for i in sig["inj"]], case["site"], case["explicit_first"]),
            "nontrivial": nontrivial, "counters": out["counters"], "sample": sample}


LEVEL_TEXT = (
    "Differential run-time oracle on the real decorator: generated signatures (compiled with exec) are called in generated context states and "
    "every injected argument is compared by identity with the explicit lookup the statement names (done before the call in half of the cases "
    "and after it in the others), exception classes must coincide and the body must not run on failure; ordinary arguments are compared; the "
    "decoration-time rejection matrix is enumerated. Sampled signatures and context states on both backends."
)
LEVEL_NOTE = "Trusted: the harness. Injected parameters are never passed explicitly; unions with more than two members are not generated."
TECHNIQUE = "differential testing of generated signatures against explicit lookups (identity comparison), both backends"
DESIGN_REF = "DESIGN.md section 3, C19"
