"""C07 - a failing or stalling component aborts startup cleanly with a precise error.

Deciding method: for every generated component tree (engine E2) the failing (component, phase in
creating / preparing / starting, step index) is *enumerated over every node and every step boundary*,
and the timeout over every gap of the tree's critical-path schedule (T = t + 0.25, no ties) plus one
value beyond the end; each run executes the real start_component in virtual time on asyncio or trio.
Oracle: ComponentStartError fields and __cause__ identity, the exact virtual instant of the raise,
schedule-based classification of every other step (scheduled before the failure: must have run;
after: must not), no ancestor start(), no probe event during 1000 virtual seconds after the raise,
ownership + LIFO teardown of everything registered before the failure.
"""
from __future__ import annotations

import copy
from typing import Any

import vkit  # noqa: F401
from engines import e2_components as e2
from vkit.harness import case_rng
from vkit.trace import ORDINARY_EXC_KINDS

PROPERTY = "C07"
LEVEL = "fault_enumeration"
ENGINE = "E2 component-tree programs"
ANCHORS = ["asphalt.core._component:start_component", "asphalt.core._component:_init_component", "asphalt.core._component:_start_component",
           "asphalt.core._component:_watch_component_tree_startup", "asphalt.core._utils:coalesce_exceptions"]
RULE = (
    "random trees (<= 8 components, depth <= 3); per tree ALL fault positions (every component x {constructor, every step boundary of prepare(), "
    "every step boundary of start()}) with exception classes {ValueError, custom Exception, LookupError, ExceptionGroup}, and ALL timeout "
    "positions (every gap of the critical-path schedule + one beyond the end, and timeout=None for the faults); one backend per tree, seeded "
    "trio scheduling. "
    "One case in five is a nested scenario: start_component(timeout=T) called from prepare()/start() of a root or child component, inner start-up needing 0.25-4 virtual seconds or for ever, error caught or propagated, outer timeout None/100. "
    "Non-trivial: a fault or timeout that strikes while at least one other component is mid-startup; distinct = (tree shape, ")
DECIDING = {
    "nested_timeouts_expiring": "start_component(timeout=T) called from inside a component, inner start-up longer than T",
    "nested_timeouts_not_expiring": "start_component(timeout=T) called from inside a component, inner start-up shorter than T",
    "fault_phase_creating": "failures in constructors",
    "fault_phase_prepare": "failures in prepare()",
    "fault_phase_start": "failures in start()",
    "fault_in_grandchild_or_deeper": "failing component at depth >= 2",
    "timeout_expiring_runs": "timeouts that expire mid-startup",
    "timeout_not_expiring_runs": "startups that finish within the timeout (must be unaffected)",
    "steps_classified": "steps classified ran / must-not-run against the schedule",
    "windows_observed": "1000 s observation windows after the raise",
    "faults_with_siblings_midway": "faults striking while a sibling was mid-startup",
    "teardown_registrations_checked": "registrations before the failure torn down with the caller's context",
    "inflight_generation_interrupted": "start-up aborted while a resource factory was generating for a component",
}
ASSUMPTIONS = [
    "exactly one component fails, with an Exception; components do not shield themselves from cancellation nor raise while being cancelled",
    "ties between the failure / timeout instant and a step's scheduled time are avoided by construction (DESIGN.md section 4)",
]


def plan(tier: str) -> dict[str, Any]:
    n = 300 if tier == "quick" else 20000
    return {"cases": n, "budget_s": 120 if tier == "quick" else 1500, "min_per_shard": 4}


def gen_case(idx: int, seed: int, tier: str) -> Any:
    rng = case_rng(PROPERTY, seed, idx)
    if idx % 5 == 4:
        return {"kind": "inflight", "backend": rng.choice(["asyncio", "trio"]), "abort": rng.choice(["failure", "timeout"]),
                "gen_time": rng.choice([0.5, 1, 2]), "consumer_delay": rng.choice([0, 0.5]), "fail_at": rng.choice([0.25, 0.75, 1.25, 3.25])}
    if idx % 10 == 2:
        return {"kind": "aftermath", "backend": rng.choice(["asyncio", "trio"]), "first": rng.choice(["failure", "timeout", "shielded_stall", "two_failures"]),
                "where": rng.choice(["root", "child"]), "gap": rng.choice([0, 0.5, 30])}
    if idx % 5 == 3 and rng.random() < 0.2:
        # the same with *long* times: a start-up of hours under a time-out of hours (or days) is timed like any other
        return {"kind": "nested", "backend": rng.choice(["asyncio", "trio"]), "where": rng.choice(["prepare", "start"]), "host": rng.choice(["root", "child"]),
                "inner_timeout": rng.choice([3600.5, 7200.5, 100000.5]), "stall": rng.choice([3000.0, 5000.0, 9000.0, 86400.0, "forever"]),
                "stall_phase": rng.choice(["prepare", "start"]), "stall_depth": rng.choice([0, 1]), "outer_timeout": None, "catch": rng.random() < 0.5,
                "pre_delay": rng.choice([0, 0.5]), "sibling_busy": rng.choice([0, 3.0]), "long": True}
    if idx % 5 == 3:
        return {"kind": "nested", "backend": rng.choice(["asyncio", "trio"]), "where": rng.choice(["prepare", "start"]), "host": rng.choice(["root", "child"]),
                "inner_timeout": rng.choice([0.5, 1.5, 2.5]), "stall": rng.choice([0.25, 1.0, 2.0, 4.0, "forever"]), "stall_phase": rng.choice(["prepare", "start"]),
                "stall_depth": rng.choice([0, 1]), "outer_timeout": rng.choice([None, None, 100]), "catch": rng.random() < 0.5,
                "pre_delay": rng.choice([0, 0.5]), "sibling_busy": rng.choice([0, 3.0])}
    tree = e2.gen_tree(rng, max_depth=3, max_fanout=3, max_nodes=8, wait_heavy=False)
    return {"backend": rng.choice(["asyncio", "trio"]), "sched_seed": rng.randrange(1 << 30), "shuffle": rng.random() < 0.5, "tree": tree,
            "exc_seed": rng.randrange(1 << 30), "only": None}


async def inflight_scenario(case: dict[str, Any], out: dict[str, Any]) -> None:
    """A resource factory is in the middle of generating a resource for one component when start-up is aborted (a sibling
    fails, or the timeout strikes).  Afterwards the surrounding context must still be usable: the resource can be requested
    again and the context can be left."""
    import anyio
    from asphalt.core import Component, ComponentStartError, Context, add_resource_factory, get_resource, start_component

    log: list[str] = out["log"]
    calls = [0]

    class Res:
        pass

    async def factory() -> Res:
        calls[0] += 1
        log.append(f"factory call {calls[0]} begins at {anyio.current_time()}")
        await anyio.sleep(case["gen_time"])
        return Res()

    class Consumer(Component):
        async def start(self) -> None:
            if case["consumer_delay"]:
                await anyio.sleep(case["consumer_delay"])
            self.res = await get_resource(Res)
            log.append("consumer got the resource")

    class Failing(Component):
        async def start(self) -> None:
            await anyio.sleep(case["fail_at"])
            if case["abort"] == "failure":
                log.append("sibling fails")
                raise RuntimeError("injected sibling failure")
            await anyio.sleep(1000)

    class Root(Component):
        def __init__(self) -> None:
            self.add_component("consumer", Consumer)
            self.add_component("failing", Failing)

        async def prepare(self) -> None:
            add_resource_factory(factory, types=[Res])

    outcome: dict[str, Any] = out
    async with Context() as ctx:
        t0 = anyio.current_time()
        try:
            await start_component(Root, timeout=case["fail_at"] + 0.125 if case["abort"] == "timeout" else None)
            outcome["start"] = "returned"
        except (ComponentStartError, TimeoutError) as e:
            outcome["start"] = type(e).__name__
        outcome["raised_at"] = anyio.current_time() - t0
        got = None
        with anyio.move_on_after(100) as scope:
            got = await ctx.get_resource(Res)
        outcome["later_lookup"] = "timed out" if scope.cancelled_caught else type(got).__name__
        with anyio.move_on_after(100) as scope2:
            again = await ctx.get_resource(Res)
            outcome["same_object"] = again is got
    outcome["left"] = True


def run_inflight(case: dict[str, Any]) -> dict[str, Any]:
    from vkit.trace import describe_exc
    from vkit.vtime import VirtualDeadlock, run_virtual

    out: dict[str, Any] = {"log": []}
    V: list[dict[str, Any]] = []
    try:
        run_virtual(case["backend"], inflight_scenario, case, out)
    except VirtualDeadlock as e:
        V.append({"key": "fail-context-unusable", "msg": f"after the aborted start-up the surrounding context could not be used / left: {e}", "witness": {"case": case, **out}})
    except BaseException as e:
        V.append({"key": "fail-crash", "msg": f"scenario crashed: {describe_exc(e)}", "witness": {"case": case, **out}})
    in_flight = case["consumer_delay"] < case["fail_at"] < case["consumer_delay"] + case["gen_time"]
    c = {"inflight_scenarios": 1, "inflight_generation_interrupted": int(in_flight)}
    if not V:
        want = "TimeoutError" if case["abort"] == "timeout" else "ComponentStartError"
        if out.get("start") != want:
            V.append({"key": "fail-wrong-exception", "msg": f"start_component: {out.get('start')}, expected {want}", "witness": {"case": case, **out}})
        if in_flight:
            # the consumer sits inside get_resource() - inside the factory - when start-up is aborted: it is stopped there and then
            when = case["fail_at"] + (0.125 if case["abort"] == "timeout" else 0)
            if out.get("start") == want and abs(out.get("raised_at", -1) - when) > 1e-9:
                V.append({"key": "timeout-time" if case["abort"] == "timeout" else "fail-time",
                          "msg": f"start-up was aborted at virtual time {when} while a component was waiting inside a resource factory that takes "
                                 f"{case['gen_time']}; start_component raised at {out.get('raised_at')}", "witness": {"case": case, **out}})
            if "consumer got the resource" in out["log"]:
                V.append({"key": "fail-sibling-continued", "msg": "the component that was waiting inside a resource factory when start-up was aborted went on "
                                                                  "with its start() afterwards", "witness": {"case": case, **out}})
        if out.get("later_lookup") != "Res":
            V.append({"key": "fail-context-unusable", "msg": f"requesting the resource from the surrounding context after the aborted start-up: {out.get('later_lookup')}",
                      "witness": {"case": case, **out}})
        elif out.get("same_object") is not True:
            V.append({"key": "fail-context-unusable", "msg": "two lookups after the aborted start-up returned different objects", "witness": {"case": case, **out}})
    return {"violations": V, "sig": ("inflight", tuple(sorted(case.items()))), "nontrivial": in_flight, "counters": c,
            "sample": {"case": case, "log": out["log"], "outcome": {k: v for k, v in out.items() if k != "log"}} if in_flight and case["fail_at"] == 0.75 else None}


async def nested_scenario(case: dict[str, Any], out: dict[str, Any]) -> None:
    """A component starts a component tree of its own - start_component(..., timeout=T) called from inside prepare()/start() - whose
    start-up takes S virtual seconds (or for ever).  The timeout of that inner call is as binding as any other: TimeoutError at exactly
    T if S > T, no effect if S < T, and nothing of the inner tree continues afterwards."""
    import anyio
    from asphalt.core import Component, ComponentStartError, Context, start_component

    log: list[Any] = out["log"]
    t0 = [0.0]

    def now() -> float:
        return anyio.current_time() - t0[0]

    async def stall(who: str) -> None:
        log.append((now(), f"{who} begins to stall"))
        if case["stall"] == "forever":
            await anyio.sleep_forever()
        else:
            await anyio.sleep(case["stall"])
        log.append((now(), f"{who} finished"))
        out["inner_finished_at"] = now()

    class Staller(Component):
        async def prepare(self) -> None:
            if case["stall_phase"] == "prepare":
                await stall("inner component prepare()")

        async def start(self) -> None:
            if case["stall_phase"] == "start":
                await stall("inner component start()")

    class InnerRoot(Component):
        def __init__(self) -> None:
            self.add_component("staller", Staller)

    inner_cls = Staller if case["stall_depth"] == 0 else InnerRoot

    async def host_phase(self: Any) -> None:
        if case["pre_delay"]:
            await anyio.sleep(case["pre_delay"])
        out["inner_called_at"] = now()
        try:
            await start_component(inner_cls, timeout=case["inner_timeout"])
            out["inner"] = "returned"
        except TimeoutError as e:
            out["inner"] = "TimeoutError"
            out["inner_error"] = e
            if not case["catch"]:
                raise
        finally:
            out["inner_done_at"] = now()
        log.append((now(), f"host {case['where']}() goes on"))

    class Host(Component):
        pass

    setattr(Host, case["where"], host_phase)

    class Busy(Component):
        async def start(self) -> None:
            await anyio.sleep(case["sibling_busy"])
            out["busy_finished_at"] = now()

    class Root(Component):
        def __init__(self) -> None:
            self.add_component("host", Host)
            if case["sibling_busy"]:
                self.add_component("busy", Busy)

    async with Context():
        t0[0] = anyio.current_time()
        try:
            await start_component(Host if case["host"] == "root" else Root, timeout=case["outer_timeout"])
            out["outer"] = "returned"
        except (ComponentStartError, TimeoutError) as e:
            out["outer"] = type(e).__name__
            out["outer_error"] = e
        out["outer_done_at"] = now()
        await anyio.sleep(50)  # observation window: nothing of either tree may run any more
    out["left"] = True


async def aftermath_scenario(case: dict[str, Any], out: dict[str, Any]) -> None:
    """what an aborted start-up leaves behind: (1) the start-up is aborted - a component fails, the timeout strikes (possibly while
    the stalled component is in a section that cannot be interrupted, so that it only notices later), or two sibling components
    fail at the same moment - and start_component raises; (2) a second, healthy component tree started in the very same context
    afterwards is unaffected by any of that and by its own (generous) timeout"""
    import anyio
    from asphalt.core import Component, ComponentStartError, Context, start_component

    log: list[Any] = out["log"]
    t0 = [0.0]
    go = anyio.Event()

    def now() -> float:
        return anyio.current_time() - t0[0]

    first = case["first"]

    class Stalls(Component):
        async def start(self) -> None:
            if first == "shielded_stall":
                with anyio.CancelScope(shield=True):
                    await anyio.sleep(3)
                out["shielded_done_at"] = now()
                return
            if first == "timeout":
                await anyio.sleep(1000)
            if first in ("failure", "two_failures"):
                await go.wait()
                raise RuntimeError("injected failure of the first sibling")

    class AlsoFails(Component):
        async def start(self) -> None:
            await go.wait()
            raise LookupError("injected failure of the second sibling")

    class Trigger(Component):
        async def start(self) -> None:
            await anyio.sleep(0.5)
            go.set()

    class Root1(Component):
        def __init__(self) -> None:
            self.add_component("stalls", Stalls)
            self.add_component("trigger", Trigger)
            if first == "two_failures":
                self.add_component("also", AlsoFails)

        async def start(self) -> None:
            out["root1_start_ran"] = True

    class Quick(Component):
        async def start(self) -> None:
            await anyio.sleep(1)
            out["quick_started_at"] = now()

    class Root2(Component):
        def __init__(self) -> None:
            self.add_component("quick", Quick)

    async with Context():
        t0[0] = anyio.current_time()
        try:
            await start_component(Stalls if case["where"] == "root" and first in ("timeout", "shielded_stall") else Root1,
                                  timeout=1 if first in ("timeout", "shielded_stall") else 100)
            out["first_outcome"] = "returned"
        except BaseException as e:
            out["first_outcome"] = e
        out["first_done_at"] = now()
        if case["gap"]:
            await anyio.sleep(case["gap"])
        t1 = now()
        try:
            await start_component(Root2 if case["where"] == "child" else Quick, timeout=5)
            out["second_outcome"] = "returned"
        except BaseException as e:
            out["second_outcome"] = e
        out["second_took"] = now() - t1
        await anyio.sleep(50)
    log.append("left")


def run_aftermath(case: dict[str, Any]) -> dict[str, Any]:
    from asphalt.core import ComponentStartError
    from vkit.trace import describe_exc, leaves
    from vkit.vtime import VirtualDeadlock, run_virtual

    out: dict[str, Any] = {"log": []}
    V: list[dict[str, Any]] = []

    def bad(key: str, msg: str) -> None:
        V.append({"key": key, "msg": f"start-up aborted by {case['first']} ({case['where']}), then a second start in the same context after {case['gap']}s: {msg}",
                  "witness": {"case": case, "outcome": {k: (describe_exc(v) if isinstance(v, BaseException) else v) for k, v in out.items() if k != "log"}}})

    try:
        run_virtual(case["backend"], aftermath_scenario, case, out)
    except VirtualDeadlock as e:
        bad("timeout-not-raised", f"the program never finished ({e})")
    except BaseException as e:
        bad("fail-crash", f"scenario crashed: {describe_exc(e)}")
    c = {"aftermath_scenarios": 1, f"aftermath_first_{case['first']}": 1}
    if not V:
        fo = out.get("first_outcome")
        first = case["first"]
        if fo == "returned":
            bad("timeout-not-raised" if first in ("timeout", "shielded_stall") else "fail-not-raised",
                f"the first start_component returned normally (root start() ran: {bool(out.get('root1_start_ran'))})")
        elif first in ("timeout", "shielded_stall"):
            if not isinstance(fo, TimeoutError):
                bad("timeout-wrong-exception", f"the first start_component raised {describe_exc(fo)} instead of TimeoutError")
            # (a stalled component that cannot be interrupted may be waited for: any instant from the timeout to its end is fine)
            lo, hi = (1.0, 1.0) if first == "timeout" else (1.0, 3.0)
            if not lo - 1e-9 <= out["first_done_at"] <= hi + 1e-9:
                bad("timeout-time", f"the first start_component ended at virtual time {out['first_done_at']}, expected {lo if lo == hi else (lo, hi)}")
        elif first == "failure":
            if not isinstance(fo, ComponentStartError) or not isinstance(fo.__cause__, RuntimeError):
                bad("fail-wrong-exception", f"the first start_component raised {describe_exc(fo)}")
        else:
            # two siblings failing at the same moment: the statement speaks of exactly one failure, so nothing is demanded of what is
            # raised - only that the start-up does not count as successful
            c["aftermath_two_failures_both_raised"] = int(len(leaves(fo)) >= 2)
        if first != "timeout" and first != "shielded_stall" and out.get("root1_start_ran"):
            bad("fail-ancestor-started", "start() of the root ran although its children failed")
        so = out.get("second_outcome")
        if so != "returned":
            bad("timeout-affected-startup[start-timeout]" if isinstance(so, TimeoutError) else "timeout-affected-startup[start-raised]",
                f"a healthy tree that needs 1 virtual second (timeout 5) failed to start: {describe_exc(so)}")
        elif abs(out["second_took"] - 1.0) > 1e-9:
            bad("timeout-affected-startup[start-schedule]", f"a healthy tree that needs 1 virtual second took {out['second_took']}")
    return {"violations": V[:3], "sig": ("aftermath", tuple(sorted((k, str(v)) for k, v in case.items()))), "nontrivial": True, "counters": c, "sample": None}


def run_nested(case: dict[str, Any]) -> dict[str, Any]:
    from vkit.trace import describe_exc
    from vkit.vtime import VirtualDeadlock, run_virtual

    out: dict[str, Any] = {"log": []}
    V: list[dict[str, Any]] = []

    def bad(key: str, msg: str) -> None:
        V.append({"key": key, "msg": f"nested start_component(timeout={case['inner_timeout']}) in {case['where']}() of the {case['host']} component, inner start-up "
                                     f"needs {case['stall']}: {msg}", "witness": {"case": case, "log": [str(x) for x in out["log"]],
                                                                                  "outcome": {k: (describe_exc(v) if isinstance(v, BaseException) else v) for k, v in out.items() if k != "log"}}})

    try:
        run_virtual(case["backend"], nested_scenario, case, out)
    except VirtualDeadlock as e:
        bad("timeout-not-raised", f"the program never finished ({e})")
    except BaseException as e:
        bad("fail-crash", f"scenario crashed: {describe_exc(e)}")
    T, S = case["inner_timeout"], case["stall"]
    expires = S == "forever" or S > T
    c = {"nested_scenarios": 1, "nested_timeouts_expiring": int(expires), "nested_timeouts_not_expiring": int(not expires)}
    if case.get("long"):
        c["nested_scenarios_with_timeouts_of_an_hour_or_more"] = 1
    if not V:
        t_call = out.get("inner_called_at", 0.0)
        if expires:
            if out.get("inner") != "TimeoutError":
                bad("timeout-not-raised", f"the inner call {out.get('inner')} at virtual time {out.get('inner_done_at')} instead of raising TimeoutError at {t_call + T}")
            elif abs(out["inner_done_at"] - (t_call + T)) > 1e-9:
                bad("timeout-time", f"TimeoutError raised at virtual time {out['inner_done_at']}, expected {t_call + T}")
            if "inner_finished_at" in out and out["inner_finished_at"] > t_call + T:
                bad("fail-work-after-raise", f"the stalled inner component went on and finished at virtual time {out['inner_finished_at']}, after the timeout")
            if not V:
                if case["catch"]:
                    want_outer, t_outer = "returned", max(t_call + T, case["sibling_busy"] if case["host"] != "root" else 0)
                else:
                    want_outer, t_outer = "ComponentStartError", t_call + T
                if out.get("outer") != want_outer:
                    bad("fail-wrong-exception", f"the outer start_component {out.get('outer')}, expected {want_outer}")
                elif abs(out["outer_done_at"] - t_outer) > 1e-9:
                    bad("fail-time", f"the outer start_component finished at virtual time {out['outer_done_at']}, expected {t_outer}")
                elif want_outer == "ComponentStartError":
                    e = out["outer_error"]
                    want_path = "" if case["host"] == "root" else "host"
                    label = {"prepare": "preparing", "start": "starting"}[case["where"]]
                    if e.__cause__ is not out.get("inner_error"):
                        bad("fail-cause", f"the cause of the outer ComponentStartError is {describe_exc(e.__cause__)}, not the TimeoutError the component raised")
                    if e.path != want_path or e.phase != label:
                        bad("fail-path", f"outer ComponentStartError names phase {e.phase!r} / path {e.path!r}, expected {label!r} / {want_path!r}")
                    if "busy_finished_at" in out and out["busy_finished_at"] > t_outer:
                        bad("fail-sibling-continued", f"the sibling of the failed component kept starting until {out['busy_finished_at']}")
        else:
            if out.get("inner") != "returned" or abs(out["inner_done_at"] - (t_call + S)) > 1e-9:
                bad("timeout-affected-startup[nested]", f"an inner start-up that fits into its timeout: the call {out.get('inner')} at {out.get('inner_done_at')}, expected to return at {t_call + S}")
            elif out.get("outer") != "returned":
                bad("timeout-affected-startup[nested]", f"the outer start_component {out.get('outer')}: {describe_exc(out.get('outer_error'))}")
    return {"violations": V, "sig": ("nested", tuple(sorted((k, str(v)) for k, v in case.items()))), "nontrivial": expires, "counters": c,
            "sample": {"case": case, "log": [str(x) for x in out["log"]], "outcome": {k: str(v) for k, v in out.items() if k != "log"}} if expires and case["catch"] is False and case["host"] == "child" else None}


def run_case(case: Any) -> dict[str, Any]:
    import random

    if case.get("kind") == "inflight":
        return run_inflight(case)
    if case.get("kind") == "nested":
        return run_nested(case)
    if case.get("kind") == "aftermath":
        return run_aftermath(case)

    rng = random.Random(case["exc_seed"])
    tree = case["tree"]
    sched = e2.schedule(tree)
    V: list[dict[str, Any]] = []
    counters: dict[str, int] = {"trees": 1}
    sigs = []
    variants: list[dict[str, Any]] = []
    for f in e2.fault_positions(tree):
        variants.append({"fault": {**f, "exc": rng.choice(ORDINARY_EXC_KINDS + ["Group", "Group1", "StartError"])}, "timeout": rng.choice([None, 1e6])})
    for t in e2.timeout_positions(tree):
        variants.append({"timeout": t})
    # no timeout at all (timeout=None) and a start-up that takes longer than any default: it finishes, unaffected
    slow = copy.deepcopy(tree)
    root = slow["nodes"][""]
    phase = "start" if root["has_start"] else ("prepare" if root["has_prepare"] else None)
    if phase is not None:
        root[phase].insert(0, ["sleep", 30.0])
        variants.append({"timeout": None, "tree": slow})
    if case.get("only") is not None:
        variants = [variants[i] for i in case["only"]]
    sample = None
    for i, var in enumerate(variants):
        c2 = {k: v for k, v in case.items() if k not in ("only", "exc_seed")}
        c2.update(copy.deepcopy(var))
        run = e2.execute(c2)
        v, c = e2.check_fault(run)
        for k, n in c.items():
            counters[k] = counters.get(k, 0) + n
        # did it strike while another component was mid-startup?
        f = var.get("fault")
        if f is not None and f["phase"] != "creating":
            t_fail = sched["phase_begin"][(f["path"], f["phase"])] if f["idx"] == 0 else sched["steps"][(f["path"], f["phase"], f["idx"] - 1)]
            others = [p for p in tree["nodes"] if p != f["path"] and not f["path"].startswith(p) and
                      sched["phase_begin"][(p, "prepare")] <= t_fail < sched["phase_end"][(p, "start")]]
            if others:
                counters["faults_with_siblings_midway"] = counters.get("faults_with_siblings_midway", 0) + 1
        for x in v:
            x["witness"]["variant_index"] = i
            if len(V) < 5 and not any(y["key"] == x["key"] for y in V):
                V.append(x)
        sigs.append((i, run.trace.signature()))
        if sample is None and f is not None and f["path"].count(".") >= 1 and len(run.trace) < 60:
            sample = {"tree": e2.summarize(tree), "fault": var, "backend": case["backend"], "trace": run.trace.compact(60)}
    counters["variants"] = len(variants)
    shape = tuple(sorted((p.count("."), len(n["children"])) for p, n in tree["nodes"].items()))
    return {"violations": V, "sig": (shape, sigs), "nontrivial": counters.get("faults_with_siblings_midway", 0) > 0 or counters.get("timeout_expiring_runs", 0) > 0,
            "counters": counters, "sample": sample}


LEVEL_TEXT = (
    "Fault enumeration at run time: per generated tree every (component, phase, step boundary) is made to fail and every gap of the "
    "critical-path schedule is used as timeout, on the real start_component in virtual time; a trace checker decides the error fields, the "
    "exact instant of the raise, which steps may / may not have run, that nothing runs during an observation window afterwards, and the "
    "ownership of earlier registrations. Exhaustive over fault and timeout positions per tree; trees are sampled."
)
LEVEL_NOTE = "Trusted: engines/e2_components.py (schedule, oracle), virtual clocks. 'Nothing continues' is bounded progress: 1000 virtual seconds of silence."
TECHNIQUE = "fault injection at every phase/step boundary + timeout sweep over the virtual-time schedule, trace checker"
DESIGN_REF = "DESIGN.md section 3, C07"
