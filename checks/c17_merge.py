"""C17 - merge_config is a pure, right-biased deep merge.

Deciding method: the real function is called (1 block in 8 and all random pairs through its icontract
post-condition; icontract's re-entrancy guard skips the function's own recursive calls, the deep
comparison of the top-level result covers them) on (1) a *completely enumerated* bounded universe of
dictionary pairs and (2) random deep pairs with aliasing; every call is compared with an
independent reference model and with deep + identity snapshots of both arguments.
"""
from __future__ import annotations

import collections
import itertools
from typing import Any

import vkit  # noqa: F401
from models.merge import canon, ids, model_merge
from monitors import contracts
from vkit.harness import case_rng

PROPERTY = "C17"
LEVEL = "exploration"
ANCHORS = ["asphalt.core._utils:merge_config"]
RULE = (
    "quick+thorough: complete enumeration of all ordered pairs (original, overrides) over the universe "
    "U = {None} + all dicts over keys {'a','a.b'} of depth <= 2 with leaves {1, None, [], {}} (843 x 843 pairs, "
    "one case = one 'original' against every 'overrides'), plus random deep pairs (depth <= 6, 0-5 keys per level from "
    "a pool incl. dotted keys, dict subclasses, lists of dicts, sub-objects shared between and inside the two arguments). "
    "A case is non-trivial if at least one dict/dict collision (recursive merge) occurred; distinct = distinct "
    "structural hash of the (original, overrides-set) block or of the random pair."
)
DECIDING = {
    "pairs_dict_dict_collision": "recursive merge exercised",
    "pairs_dict_vs_scalar": "dict replaced by scalar or scalar by dict",
    "pairs_none_argument": "None for either argument",
    "pairs_dotted_key": "dotted keys present",
    "pairs_shared_subobject": "same object reachable from both arguments",
    "pairs_of_chains_nested_deeper_than_10": "two chains of nested sections (12-150 levels) with a key of their own at every level",
    "pairs_of_chains_nested_deeper_than_32": "... of which deeper than 32 levels",
    "contract_evaluations": "icontract post-condition evaluated on the real function",
    "suite_contract_evaluations": "post-condition evaluated on the merges asphalt itself performs while the repository's test-suite runs",
}
ASSUMPTIONS = [
    "keys are str (a few int); values that are Mapping but not dict are not generated (DESIGN.md section 4)",
    "equality of results is structural (dict subclass and key order ignored)",
]

LEAVES: list[Any] = [1, None, [], {}]
KEYS = ["a", "a.b"]


def _universe() -> list[Any]:
    def dicts(values: list[Any]) -> list[dict[str, Any]]:
        out = []
        for combo in itertools.product([("absent",)] + [("v", i) for i in range(len(values))], repeat=len(KEYS)):
            out.append({k: ("ref", c[1]) for k, c in zip(KEYS, combo) if c[0] == "v"})
        return out

    d1_specs = dicts(LEAVES)
    d1 = [{k: LEAVES[v[1]] for k, v in spec.items()} for spec in d1_specs]
    # depth-2 values: leaves + non-empty depth-1 dicts ({} is already a leaf)
    vals2: list[Any] = list(LEAVES) + [d for d in d1 if d]
    d2_specs = dicts(vals2)
    d2 = [{k: vals2[v[1]] for k, v in spec.items()} for spec in d2_specs]
    return [None] + d2


_U: list[Any] | None = None


def universe() -> list[Any]:
    global _U
    if _U is None:
        _U = _universe()
    return _U


def plan(tier: str) -> dict[str, Any]:
    n_enum = len(universe())
    n_rand = 400 if tier == "quick" else 60000
    return {"cases": n_enum + n_rand + 1, "n_enum": n_enum, "budget_s": 60 if tier == "quick" else 900,
            "min_per_shard": 40, "min_cases": n_enum}


def exhaustive(tier: str) -> bool:
    return False  # the bounded universe is enumerated completely, the random part is not


def priority_cases(tier: str) -> list[int]:
    return [plan(tier)["cases"] - 1]  # the suite run carries a deciding counter: never cut it off at the budget


def gen_case(idx: int, seed: int, tier: str) -> Any:
    n_enum = len(universe())
    if idx == plan(tier)["cases"] - 1:
        return {"kind": "suite", "timeout_s": 600}  # the repository's own tests as one more workload, with the contract on
    if idx < n_enum:
        return {"kind": "enum", "orig_index": idx}
    return {"kind": "random", "seed": f"{seed}:{idx}", "pairs": 50}


# ----------------------------------------------------------------------------- random values


class MyDict(dict):  # a dict subclass: must be treated like a dict
    pass


KEYPOOL = ["a", "b", "c", "a.b", "b.c", "x.y.z", "", "type", "components", 1]


def rand_value(rng: Any, depth: int, shared: list[Any]) -> Any:
    r = rng.random()
    if shared and r < 0.12:
        return rng.choice(shared)
    if depth > 0 and r < 0.55:
        return rand_dict(rng, depth - 1, shared)
    if depth > 0 and r < 0.65:
        return [rand_value(rng, depth - 1, shared) for _ in range(rng.randint(0, 3))]
    return rng.choice([0, 1, "s", None, 2.5, True, (), [], {}, "a.b"])


def rand_dict(rng: Any, depth: int, shared: list[Any]) -> Any:
    cls = rng.choice([dict, dict, dict, MyDict, collections.OrderedDict])
    d = cls()
    for k in rng.sample(KEYPOOL, rng.randint(0, 5)):
        d[k] = rand_value(rng, depth, shared)
    if rng.random() < 0.3:
        shared.append(d)
    return d


# ----------------------------------------------------------------------------- oracle


def _features(a: Any, b: Any, cnt: collections.Counter) -> bool:
    """count what kind of pair this is; returns True if a dict/dict collision exists at any depth"""
    coll = False
    if a is None or b is None:
        cnt["pairs_none_argument"] += 1
        return False
    for k in a:
        if k in b:
            da, db = isinstance(a[k], dict), isinstance(b[k], dict)
            if da and db:
                cnt["pairs_dict_dict_collision"] += 1
                coll = True
                _features(a[k], b[k], collections.Counter())
            elif da != db:
                cnt["pairs_dict_vs_scalar"] += 1
    if any(isinstance(k, str) and "." in k for k in list(a) + list(b)):
        cnt["pairs_dotted_key"] += 1
    return coll


def check_pair(merge: Any, a: Any, b: Any, cnt: collections.Counter, aliasing: bool = True) -> list[dict[str, Any]]:
    ca, cb = canon(a), canon(b)  # deep snapshots: cover modification at any depth
    if aliasing and set(ids(a)) & set(ids(b)):
        cnt["pairs_shared_subobject"] += 1
    expected = canon(model_merge(a, b))
    out: list[dict[str, Any]] = []
    try:
        res = merge(a, b)
    except Exception as exc:
        return [{"key": "merge-raises", "msg": f"merge_config raised {exc!r}", "witness": {"original": repr(a), "overrides": repr(b)}}]
    w = {"original": repr(a), "overrides": repr(b), "result": repr(res)}
    if not isinstance(res, dict):
        out.append({"key": "merge-result", "msg": "result is not a dict", "witness": w})
    elif canon(res) != expected:
        out.append({"key": "merge-result", "msg": "result differs from the reference deep merge",
                    "witness": {**w, "expected": repr(model_merge(a, b))}})
    if res is a or res is b:
        out.append({"key": "merge-returns-argument", "msg": "result is one of the arguments (not a new dictionary)", "witness": w})
    if canon(a) != ca:
        out.append({"key": "merge-mutates-original", "msg": "'original' was modified", "witness": {**w, "original_before": repr(ca)}})
    if canon(b) != cb:
        out.append({"key": "merge-mutates-overrides", "msg": "'overrides' was modified", "witness": {**w, "overrides_before": repr(cb)}})
    # independence of the result: mutating the result's top level must not touch the arguments
    if isinstance(res, dict) and res is not a and res is not b:
        res["__probe__"] = 1
        if (isinstance(a, dict) and "__probe__" in a) or (isinstance(b, dict) and "__probe__" in b):
            out.append({"key": "merge-returns-argument", "msg": "result shares its top-level table with an argument", "witness": w})
        res.pop("__probe__", None)
    return out


def run_case(case: Any) -> dict[str, Any]:
    import copy

    if case["kind"] == "suite":
        from monitors.suite_run import run_suite_with_contracts

        r = run_suite_with_contracts("merge_config")
        vs = [{"key": p.get("key"), "msg": "icontract post-condition fired while running the repository's tests: " + p.get("msg", ""), "witness": p}
              for p in r["problems"][:3]]
        return {"violations": vs, "sig": "suite", "nontrivial": False, "counters": {"suite_contract_evaluations": r["evaluations"], "suite_runs": int(r["ran"])},
                "sample": None}
    contracts.install_merge_contract()
    from asphalt.core import _utils

    merge = _utils.merge_config
    before = contracts.LOG.evaluations.get("merge_config", 0)
    cnt: collections.Counter = collections.Counter()
    violations: list[dict[str, Any]] = []
    nontrivial = False
    if case["kind"] == "enum":
        if case["orig_index"] % 8:
            # 7 of 8 blocks call the undecorated function (the direct oracle below is the same check);
            # every 8th block and all random pairs go through the icontract post-condition as well
            merge = getattr(merge, "__verif_original__", merge)
        U = universe()
        a0 = U[case["orig_index"]]
        for b0 in U:
            a, b = copy.deepcopy(a0), copy.deepcopy(b0)
            nontrivial |= _features(a, b, cnt)
            cnt["pairs"] += 1
            violations.extend(check_pair(merge, a, b, cnt, aliasing=False))
        # aliasing variants of the same 'original': merge with itself, and with a shared child
        a = copy.deepcopy(a0)
        cnt["pairs"] += 1
        violations.extend(check_pair(merge, a, a, cnt))
        sig = ("enum", case["orig_index"])
        sample = {"original": repr(a0), "overrides": "every element of U (843)", "last_overrides": repr(U[-1]),
                  "expected_for_last": repr(model_merge(a0, U[-1]))}
    else:
        rng = case_rng(PROPERTY, 0, 0, case["seed"])
        sigs = []
        sample = None
        for _ in range(case["pairs"]):
            shared: list[Any] = []
            depth = rng.randint(1, 6)
            a = rng.choice([None] + [rand_dict(rng, depth, shared)] * 9)
            b = rng.choice([None] + [rand_dict(rng, depth, shared)] * 9)
            if rng.random() < 0.05:
                b = a
            elif rng.random() < 0.08:
                # two long chains of nested sections with a key of their own at every level: merged at every depth, however deep
                deep = rng.choice([12, 17, 21, 33, 40, 65, 100, 150])
                a, b = {"a_leaf": 1}, {"b_leaf": 2}
                for lvl in range(deep):
                    a, b = {"n": a, f"a{lvl}": lvl}, {"n": b, f"b{lvl}": [lvl]}
                cnt["pairs_of_chains_nested_deeper_than_10"] += 1
                if deep > 32:
                    cnt["pairs_of_chains_nested_deeper_than_32"] += 1
            nt = _features(a, b, cnt)
            nontrivial |= nt
            cnt["pairs"] += 1
            if nt:
                sigs.append((canon(a), canon(b)))
            if sample is None and nt:
                sample = {"original": repr(a)[:400], "overrides": repr(b)[:400]}
            violations.extend(check_pair(merge, a, b, cnt))
        sig = ("random", repr(sigs))
    for p in contracts.LOG.drain():
        violations.append({"key": p.get("key"), "msg": "icontract post-condition: " + p.get("msg", ""), "witness": p})
    cnt["contract_evaluations"] = contracts.LOG.evaluations.get("merge_config", 0) - before
    # de-duplicate by key, keep first witness of each
    seen, uniq = set(), []
    for v in violations:
        if v["key"] not in seen:
            seen.add(v["key"])
            uniq.append(v)
    return {"violations": uniq, "sig": sig, "nontrivial": nontrivial, "counters": dict(cnt),
            "sample": sample if case.get("orig_index", 1) % 200 == 1 or case["kind"] == "random" else None}

LEVEL_TEXT = (
    "Runtime oracle on the real function: every ordered pair of a completely enumerated bounded universe (843 x 843 "
    "dict/None pairs, depth <= 2, dotted keys, dict-vs-scalar collisions, empty dicts) plus random deep aliased pairs is "
    "executed and compared with an independent reference merge and with deep snapshots of both arguments; the same "
    "oracle is also attached to the real function as an icontract post-condition (used by other checks and the suite run). Exhaustive for the bounded universe, sampled beyond it."
)
LEVEL_NOTE = "Trusted: the 15-line reference model (models/merge.py) and structural equality (canon). Not covered: Mapping values that are not dict."
TECHNIQUE = "runtime contract (icontract) + reference-model differential over enumerated and random inputs"
DESIGN_REF = "DESIGN.md section 3, C17"
