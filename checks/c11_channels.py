"""C11 - every (instance, signal attribute) pair is an independent channel.

Deciding method: classes with 1-4 Signal attributes (own, inherited, overriding, different event
classes, __slots__ + __weakref__, value-equal frozen dataclasses) are generated, instantiated and
their attributes first-accessed in enumerated / random orders.  Identity of bound signals is checked
pairwise, an icontract post-condition on the real Signal.__get__ checks topic / event class /
owner of every binding (PM-channel), one subscriber is attached to every channel and one event is
dispatched per channel: the delivery matrix must be the identity.  Wrong-class events, class-level
use and garbage collection of owners are checked per layout.
"""
from __future__ import annotations

import gc
import itertools
import weakref
from dataclasses import dataclass
from typing import Any

import anyio

import vkit  # noqa: F401
from monitors import contracts
from vkit.harness import case_rng
from vkit.trace import describe_exc
from vkit.vtime import VirtualDeadlock, run_virtual

PROPERTY = "C11"
LEVEL = "exploration"
ENGINE = "E5 channel matrix"
ANCHORS = ["asphalt.core._event:Signal.__get__", "asphalt.core._event:Signal.dispatch", "asphalt.core._event:Signal._subscribe"]
RULE = (
    "exhaustive small matrix: every class layout with 1-3 signal attributes x 1-3 instances x every first-access order of the (instance, "
    "attribute) pairs for <= 4 pairs (all permutations) on both backends; plus random layouts: 1-4 attributes spread over a base class and a "
    "subclass (inherited / overriding), 1-3 event classes, owner kinds {plain, __slots__+__weakref__, frozen dataclass with equal values, falsy (__len__ == 0)}, 1-4 "
    "instances, random access order. "
    "Wrong-class events include the Event base class, non-events and an unrelated class with the declared class' module and qualified name; a successor owner allocated at a collected owner's address. "
    "Non-trivial: >= 2 channels; distinct = (layout, owner kind, access order, backend).")
DECIDING = {
    "channels_checked": "(instance, attribute) channels exercised",
    "delivery_matrix_cells": "cells of the subscriber x channel delivery matrix compared",
    "combined_stream_events": "events received by one stream subscribed to all channels at once",
    "layouts_two_signals_one_instance": "two signals on one instance (the user guide's example)",
    "layouts_inherited": "inherited or overriding declarations",
    "layouts_equal_instances": "distinct instances that compare equal",
    "wrong_class_rejections": "wrong-class events that must raise TypeError",
    "subclass_events_dispatched": "events of a subclass of the declared class (must be accepted)",
    "unbound_uses": "class-level uses that must raise UnboundSignal",
    "successors_at_a_dead_owners_address": "a new owner created at the address of a collected one used the same signal first",
    "owners_collected": "owners whose weak reference must die after the last strong reference is dropped",
    "copied_owners": "copy.copy() of an owner after its signals were bound",
    "super_access_first": "base declaration of an overridden signal reached first through super()",
    "contract_evaluations": "icontract post-condition on Signal.__get__ evaluated",
    "suite_contract_evaluations": "post-condition evaluated on every signal binding made while the repository's test-suite runs",
}
ASSUMPTIONS = [
    "owners are hashable and weak-referenceable (the Signal docs annotate the owner as Hashable)",
]


def build_layout(spec: dict[str, Any]) -> tuple[Any, dict[str, Any], list[Any]]:
    """returns (class, {attr: event class}, event classes)"""
    from asphalt.core import Event, Signal

    evs: list[Any] = []
    for i in range(spec["n_event_classes"]):
        evs.append(type(f"Ev{i}", (Event,), {"__init__": lambda self, n=0: setattr(self, "n", n), "__slots__": ("n",)}))
    base_ns: dict[str, Any] = {}
    sub_ns: dict[str, Any] = {}
    attr_ev: dict[str, Any] = {}
    for a in spec["attrs"]:
        ev = evs[a["ev"]]
        if a["where"] == "base":
            base_ns[a["name"]] = Signal(ev)
        if a["where"] == "override":  # the base class declares it with another event class, the subclass overrides it
            base_ns[a["name"]] = Signal(evs[a.get("base_ev", a["ev"])])
        if a["where"] in ("sub", "override"):
            sub_ns[a["name"]] = Signal(ev)
        attr_ev[a["name"]] = ev
    kind = spec["owner_kind"]
    if kind == "slots":
        base_ns["__slots__"] = ("__weakref__", "x")
        sub_ns["__slots__"] = ()
    if kind == "falsy":
        # a container-like owner that is empty at the moment (an empty registry): falsy, but an owner like any other
        base_ns["__len__"] = lambda self: 0
    Base = type("Base", (), base_ns)
    if kind == "frozen":
        Base = dataclass(frozen=True)(type("Base", (), {**base_ns, "__annotations__": {"x": int}}))
    cls = type("Sub", (Base,), sub_ns) if spec["subclass"] else Base
    if kind == "frozen" and spec["subclass"]:
        cls = dataclass(frozen=True)(cls)
    return cls, attr_ev, evs


def make_instance(cls: Any, kind: str, i: int) -> Any:
    if kind == "frozen":
        return cls(1)  # all instances compare equal and hash equal
    inst = cls()
    if kind == "slots":
        inst.x = i
    return inst


async def library_scenario(case: dict[str, Any], out: dict[str, Any]) -> None:
    from asphalt.core import Component, Context, ResourceEvent, current_context, start_component

    V = out["violations"]

    def bad(key: str, msg: str) -> None:
        if not any(v["key"] == key for v in V):
            V.append({"key": key, "msg": msg, "witness": {"case": case}})

    owners: list[tuple[str, Any]] = []
    heard: dict[str, list[Any]] = {}

    async def listen(label: str, sig: Any, ready: anyio.Event) -> None:
        async with sig.stream_events() as stream:
            ready.set()
            async for ev in stream:
                heard.setdefault(label, []).append(ev)

    class Child(Component):
        async def start(self) -> None:
            owners.append(("component-context", current_context()))
            await anyio.sleep(1)

    class Root(Component):
        def __init__(self) -> None:
            self.add_component("kid/alt" if case["slash_alias"] else "kid", Child)

        async def start(self) -> None:
            owners.append(("root-component-context", current_context()))

    async with Context() as outer, anyio.create_task_group() as tg:
        owners.append(("outer", outer))
        kids = [Context() for _ in range(case["children"])]
        owners.extend((f"child{i}", k) for i, k in enumerate(kids))

        async def starter() -> None:
            await start_component(Root)

        tg.start_soon(starter)
        await anyio.sleep(0.5)  # the child component is inside its start() now
        bound = [(label, o, o.resource_added) for label, o in owners]
        for (l1, o1, b1), (l2, o2, b2) in itertools.combinations(bound, 2):
            if o1 is not o2 and b1 is b2:
                bad("channel-shared[instances]", f"`resource_added` of {l1} and of {l2} (two different objects) is one and the same bound signal")
        for label, o, b in bound:
            if o.resource_added is not b:
                bad("channel-not-stable", f"{label}.resource_added returned a different bound signal on a later access")
        readies = []
        for label, o, b in bound:
            readies.append(anyio.Event())
            tg.start_soon(listen, label, b, readies[-1])
        for r in readies:
            await r.wait()
        # one publication in the outer context: an event on the outer context's channel, and on no other
        outer.add_resource(object(), "probe")
        await anyio.wait_all_tasks_blocked()
        for label, o, b in bound:
            evs = [e for e in heard.get(label, []) if isinstance(e, ResourceEvent) and e.resource_name == "probe"]
            if label == "outer":
                if len(evs) != 1 or evs[0].source is not outer:
                    bad("channel-lost", f"the outer context's own listener heard {len(evs)} events for one publication")
            elif evs:
                bad("channel-crosstalk", f"a listener of {label}.resource_added heard the publication made in the outer context (event source: "
                                         f"{'the outer context' if evs[0].source is outer else type(evs[0].source).__name__})")
        # one stream over the channel of a short-lived context and a channel of some other object: when the context is gone, the
        # other channel still delivers to that stream
        from asphalt.core import Event, Signal, stream_events

        class Src:
            sig = Signal(Event)

        src = Src()
        both: list[Any] = []
        both_ready = anyio.Event()

        async def listen_both(sigs: list[Any]) -> None:
            async with stream_events(sigs) as stream:
                both_ready.set()
                async for ev in stream:
                    both.append(ev)

        async with Context() as short:
            tg.start_soon(listen_both, [short.resource_added, src.sig] if case["children"] % 2 else [src.sig, short.resource_added])
            await both_ready.wait()
            short.add_resource(object(), "short_lived")
            await anyio.wait_all_tasks_blocked()
        after = Event()
        try:
            src.sig.dispatch(after)
        except Exception as e:
            bad("channel-dispatch-raised", f"dispatching on a signal raised {describe_exc(e)} after a context whose `resource_added` shared a stream with it was closed")
        await anyio.wait_all_tasks_blocked()
        if len(both) != 2 or both[-1] is not after:
            bad("channel-lost[combined-stream]", f"one stream over a short-lived context's `resource_added` and another signal received {len(both)} of 2 events "
                                                 f"(the second one dispatched on the other signal after the context was closed)")
        # an event whose class is a *virtual* subclass (ABC.register) of the declared, abstract event class is an instance of it: it is
        # the right class, not a wrong one
        from abc import ABC

        class PluginEvent(Event, ABC):
            pass

        class VendorEvent(Event):
            pass

        PluginEvent.register(VendorEvent)

        class Host:
            plugin_event = Signal(PluginEvent)

        host = Host()
        got_virtual: list[Any] = []
        virtual_ready = anyio.Event()

        async def listen_virtual() -> None:
            async with host.plugin_event.stream_events() as stream:
                virtual_ready.set()
                async for ev in stream:
                    got_virtual.append(ev)

        tg.start_soon(listen_virtual)
        await virtual_ready.wait()
        vendor_event = VendorEvent()
        try:
            host.plugin_event.dispatch(vendor_event)
        except Exception as e:
            bad("channel-dispatch-raised", f"dispatching an instance of a registered virtual subclass of the declared (abstract) event class raised {describe_exc(e)}")
        await anyio.wait_all_tasks_blocked()
        if got_virtual != [vendor_event] and not V:
            bad("channel-lost", "an event of a registered virtual subclass of the declared event class was not delivered")
        try:
            host.plugin_event.dispatch(Event())
            bad("channel-event-class", "an event that is no instance of the declared (abstract) event class was accepted")
        except TypeError:
            pass
        out["counters"]["library_channels_checked"] = len(bound)
        out["counters"]["library_scenarios_with_a_component_context"] = int(any(l == "component-context" for l, _, _ in bound))
        await anyio.sleep(1)
        tg.cancel_scope.cancel()


async def scenario(case: dict[str, Any], out: dict[str, Any]) -> None:
    from asphalt.core import SignalQueueFull, UnboundSignal  # noqa: F401

    spec = case["layout"]
    V: list[dict[str, Any]] = out["violations"]
    cnt: dict[str, int] = out["counters"]

    def inc(k: str, n: int = 1) -> None:
        cnt[k] = cnt.get(k, 0) + n

    def bad(key: str, msg: str) -> None:
        if len(V) < 6:
            V.append({"key": key, "msg": msg, "witness": {"case": case}})

    cls, attr_ev, evs = build_layout(spec)
    kind = spec["owner_kind"]
    insts = [make_instance(cls, kind, i) for i in range(case["n_instances"])]
    pairs = [(i, a) for i in range(len(insts)) for a in attr_ev]
    order = case["order"]
    bound: dict[tuple[int, str], Any] = {}
    for pi in order:
        i, a = pairs[pi]
        bound[(i, a)] = getattr(insts[i], a)
    crowd: list[Any] = []
    if case.get("crowd"):
        # hundreds of other live owners whose channels come into being in between: the channels bound so far stay what they are
        crowd = [make_instance(cls, kind, 1000 + j) for j in range(case["crowd"])]
        for c in crowd[: len(crowd) // 2]:
            for a in attr_ev:
                getattr(c, a)
        inc("layouts_with_a_crowd_of_other_live_owners")
    for (i, a) in pairs:
        b = getattr(insts[i], a)
        if (i, a) not in bound:
            bound[(i, a)] = b
        elif b is not bound[(i, a)]:
            bad("channel-not-stable", f"instance {i}.{a} returned a different bound signal on a later access")
    inc("channels_checked", len(pairs))
    if len(attr_ev) >= 2:
        inc("layouts_two_signals_one_instance")
    if spec["subclass"]:
        inc("layouts_inherited")
    if kind == "frozen" and len(insts) >= 2:
        inc("layouts_equal_instances")
    for (k1, b1), (k2, b2) in itertools.combinations(bound.items(), 2):
        if b1 is b2:
            what = "two attributes of one instance" if k1[0] == k2[0] else ("value-equal distinct instances" if kind == "frozen" else "two instances")
            key = "channel-shared[attrs]" if k1[0] == k2[0] else ("channel-shared[equal-instances]" if kind == "frozen" else "channel-shared[instances]")
            bad(key, f"{what} share one bound signal: {k1} and {k2}")
    # ---- delivery matrix: one subscriber per channel, one event per channel
    received: dict[tuple[int, str], list[Any]] = {k: [] for k in bound}
    async with anyio.create_task_group() as tg:
        ready = {k: anyio.Event() for k in bound}

        async def subscriber(k: tuple[int, str]) -> None:
            try:
                async with bound[k].stream_events(max_queue_size=1000) as stream:
                    ready[k].set()
                    async for ev in stream:
                        received[k].append(ev)
            except Exception as e:
                ready[k].set()
                bad("channel-subscribe-raised", f"subscribing to {k} raised {describe_exc(e)}")

        combined: list[Any] = []
        combined_ready = anyio.Event()

        async def combined_subscriber() -> None:
            # one stream over every channel at once: each channel is still its own channel
            from asphalt.core import stream_events

            try:
                async with stream_events(list(bound.values()), max_queue_size=1000) as stream:
                    combined_ready.set()
                    async for ev in stream:
                        combined.append(ev)
            except Exception as e:
                combined_ready.set()
                bad("channel-subscribe-raised", f"one stream over all channels raised {describe_exc(e)}")

        for k in bound:
            tg.start_soon(subscriber, k)
        tg.start_soon(combined_subscriber)
        for k in bound:
            await ready[k].wait()
        await combined_ready.wait()
        for c in crowd[len(crowd) // 2:]:
            for a in attr_ev:
                getattr(c, a)  # (the other half of the crowd turns up while the subscribers are listening)
        sent: dict[tuple[int, str], Any] = {}
        for n, k in enumerate(bound):
            ev = attr_ev[k[1]](n)
            sent[k] = ev
            try:
                # (every other event is dispatched through a fresh attribute access: the same channel)
                (getattr(insts[k[0]], k[1]) if n % 2 else bound[k]).dispatch(ev)
            except Exception as e:
                bad("channel-dispatch-raised", f"dispatching the right event class on {k} raised {describe_exc(e)}")
                continue
            if ev.source is not insts[k[0]]:
                bad("channel-source", f"event dispatched on {k} carries another source (instance index "
                                      f"{[j for j, x in enumerate(insts) if x is ev.source]})")
            if ev.topic != k[1]:
                bad("channel-topic", f"event dispatched on {k} carries topic {ev.topic!r}")
        await anyio.wait_all_tasks_blocked()
        tg.cancel_scope.cancel()
    inc("combined_stream_events", len(combined))
    if len(combined) != len(sent) or any(g is not e for g, e in zip(combined, sent.values())):
        missing = [k for k, ev in sent.items() if not any(g is ev for g in combined)]
        bad("channel-lost[combined-stream]", f"a single stream over all {len(bound)} channels received {len(combined)} of the {len(sent)} events; "
                                             f"events of channels {missing} are missing or duplicated (owner kind {kind})")
    for k in bound:
        got = received[k]
        inc("delivery_matrix_cells", len(bound))
        expected = [sent[k]] if k in sent else []
        if len(got) != len(expected) or any(g is not e for g, e in zip(got, expected)):
            foreign = [kk for kk, ev in sent.items() if any(g is ev for g in got) and kk != k]
            bad("channel-crosstalk" if foreign else "channel-lost",
                f"subscriber of channel {k} received {len(got)} event(s); from other channels: {foreign}; own event delivered: "
                f"{any(g is sent.get(k) for g in got)}")
    # ---- the same single stream over all channels, this time as the only subscriber there is (no channel has a listener of
    # its own at the moment it subscribes; the same signal is even listed twice): still one event per dispatch and channel
    from asphalt.core import stream_events as _stream_events

    solo: list[Any] = []
    try:
        async with _stream_events(list(bound.values()) + list(bound.values())[:1], max_queue_size=1000) as st2:
            sent2 = {}
            for n, k in enumerate(bound):
                ev2 = attr_ev[k[1]](100 + n)
                sent2[k] = ev2
                bound[k].dispatch(ev2)
            with anyio.move_on_after(5):
                while len(solo) < len(sent2) + 1:
                    solo.append(await st2.__anext__())
        inc("solo_combined_stream_events", len(solo))
        first_key = next(iter(bound))
        want_ids = [id(sent2[k]) for k in bound]
        got_ids = [id(x) for x in solo]
        # (a signal listed twice may deliver its event once or twice - the statement does not say; every other event exactly once)
        dup_ok = [i for i in got_ids if i != id(sent2[first_key])]
        if [i for i in want_ids if i != id(sent2[first_key])] != dup_ok or id(sent2[first_key]) not in got_ids:
            missing = [k for k in bound if id(sent2[k]) not in got_ids]
            bad("channel-lost[combined-stream]", f"a single stream over all {len(bound)} channels, subscribed while no channel had any other listener, received the events "
                                                 f"of {len(set(got_ids))} channels; missing: {missing} (owner kind {kind})")
    except Exception as e:
        bad("channel-subscribe-raised", f"one stream over all channels (as the only subscriber) raised {describe_exc(e)}")
    # ---- "always": the attribute still yields the very same bound signal after its subscribers have come and gone (somebody
    # may have kept it, or a bound method of it such as `emit = obj.changed.dispatch`, from before)
    for (i, a) in pairs:
        inc("channels_rechecked_after_all_subscribers_left")
        if getattr(insts[i], a) is not bound[(i, a)]:
            bad("channel-not-stable", f"instance {i}.{a} yields a different bound signal once all subscribers of the first one have left")
            break
    # ---- an instance of a *subclass* of the declared event class is a right-class event: accepted and delivered
    for k in list(bound)[:2]:
        Sub = type("SubEvent", (attr_ev[k[1]],), {"__slots__": ()})
        inc("subclass_events_dispatched")
        sev = Sub(99)
        try:
            async with bound[k].stream_events(max_queue_size=5) as st:
                bound[k].dispatch(sev)
                got_sub = None
                with anyio.move_on_after(5):
                    got_sub = await st.__anext__()
            if got_sub is not sev:
                bad("channel-lost", f"an event of a subclass of the declared event class dispatched on {k} was not delivered")
        except TypeError as e:
            bad("channel-wrong-class", f"an event of a subclass of the declared event class was rejected on {k}: {describe_exc(e)}")
        except Exception as e:
            bad("channel-dispatch-raised", f"dispatching a subclass event on {k} raised {describe_exc(e)}")
    # ---- wrong class: another declared event class, the Event base class itself, an unrelated class that merely carries the
    # same module and qualified name as the declared one (two classes made by one class factory), and non-events
    from asphalt.core import Event as _Event

    for k in list(bound)[:3]:
        declared = attr_ev[k[1]]
        namesake = type(declared.__name__, (_Event,), {"__module__": declared.__module__, "__init__": lambda self, n=0: None})
        namesake.__qualname__ = declared.__qualname__
        wrongs: list[Any] = [("namesake of the declared class", lambda: namesake(0)), ("the Event base class", lambda: _Event()),
                             ("a str", lambda: "event"), ("None", lambda: None),
                             # the parentheses forgotten: the event *class* (or a subclass of it) instead of an instance
                             ("the declared event class itself (not an instance)", lambda: declared),
                             ("a subclass object of the declared event class", lambda: type("SubOfDeclared", (declared,), {"__slots__": ()}))]
        other = next((e for e in evs if not issubclass(e, declared) and e is not declared), None)
        if other is not None:
            wrongs.append((f"class {other.__name__}", lambda other=other: other(0)))
        for what, make in wrongs:
            if what == "the Event base class" and declared is _Event:
                continue
            inc("wrong_class_rejections")
            try:
                bound[k].dispatch(make())
            except TypeError:
                pass
            except Exception as e:
                bad("channel-wrong-class", f"wrong-class event ({what}) on {k} raised {describe_exc(e)} instead of TypeError")
            else:
                bad("channel-wrong-class", f"an event that is {what} was accepted on {k} declared for {declared.__name__}")
    # ---- class-level use
    for a in list(attr_ev)[:2]:
        decl = getattr(cls, a)
        for how in ("dispatch", "stream", "wait", "stream-function", "wait-function", "stream-function-mixed"):
            inc("unbound_uses")
            try:
                if how == "dispatch":
                    decl.dispatch(attr_ev[a](0))
                elif how == "stream":
                    async with decl.stream_events():
                        pass
                elif how == "wait":
                    with anyio.move_on_after(1):
                        await decl.wait_event()
                else:
                    # the same through the module-level functions, alone or after a properly bound signal
                    from asphalt.core import stream_events as _se, wait_event as _we

                    if how == "wait-function":
                        with anyio.move_on_after(1):
                            await _we([decl])
                    else:
                        async with _se(([next(iter(bound.values()))] if how.endswith("mixed") else []) + [decl]):
                            pass
            except UnboundSignal:
                continue
            except Exception as e:
                bad("channel-unbound", f"class-level {how} on {a} raised {describe_exc(e)} instead of UnboundSignal")
            else:
                bad("channel-unbound", f"class-level {how} on {a} did not raise UnboundSignal")
    # ---- a shallow copy of an owner is a different instance: it must get its own channels
    if kind != "slots":
        import copy as _copy

        orig = make_instance(cls, kind, 7)
        first = {a: getattr(orig, a) for a in attr_ev}
        clone = _copy.copy(orig)
        inc("copied_owners")
        for a in attr_ev:
            b = getattr(clone, a)
            if b is first[a]:
                bad("channel-shared[copy]", f"copy.copy() of an owner shares the bound signal of attribute {a} with the original")
            ref = getattr(b, "_instance", None)
            ev = attr_ev[a](0)
            try:
                b.dispatch(ev)
            except Exception as e:
                bad("channel-dispatch-raised", f"dispatch on the copy raised {describe_exc(e)}")
                continue
            if ev.source is not clone:
                bad("channel-source", f"event dispatched on a copied owner carries the {'original' if ev.source is orig else 'wrong'} instance as source")
    # ---- reaching the base class' declaration of an overridden signal first (through super()) must not change what
    #      the instance attribute resolves to
    overridden = [a["name"] for a in spec["attrs"] if a["where"] == "override"] if spec["subclass"] else []
    if overridden and kind != "frozen":
        inst = make_instance(cls, kind, 8)
        Base = cls.__mro__[1]
        inc("super_access_first")
        for a in overridden:
            base_bound = getattr(super(cls, inst), a)
            own = getattr(inst, a)
            if own is base_bound:
                bad("channel-shared[override]", f"after accessing the base class' declaration of {a} through super(), instance.{a} is the base declaration's bound signal")
            if own.event_class is not attr_ev[a]:
                bad("channel-event-class", f"instance.{a} carries event class {own.event_class.__name__} after super() access, declared {attr_ev[a].__name__}")
        del Base
    # ---- garbage collection of owners (fresh instance; the bound signals stay referenced by the "user")
    if case.get("gc", True):
        alive, held = gc_check(cls, kind, list(attr_ev))
        inc("owners_collected")
        if alive:
            bad("channel-keeps-owner-alive", "owner instance still alive after the last strong reference was dropped "
                                             f"(its {len(held)} bound signal(s) are still referenced)")
        del held
        verdict, detail = successor_check(cls, kind, list(attr_ev), attr_ev)
        if verdict == "no-reuse":
            inc("successor_address_not_reused")
        else:
            inc("successors_at_a_dead_owners_address")
            if verdict != "ok":
                bad("channel-shared[successor]" if verdict == "shared" else "channel-source", detail)


def successor_check(cls: Any, kind: str, names: list[str], attr_ev: dict[str, Any]) -> tuple[str, str]:
    """an owner dies while its bound signals are still referenced; the next owner created lands at the very same address and
    uses the same signal first thing: it must get a channel of its own.  Returns (verdict, detail); verdict 'no-reuse' when the
    allocator did not hand the address out again (nothing decided)."""
    inst = make_instance(cls, kind, 98)
    addr = id(inst)
    held = {a: getattr(inst, a) for a in names}
    del inst
    gc.collect()
    new = None
    spare = []
    for _ in range(30):
        cand = make_instance(cls, kind, 97)
        if id(cand) == addr:
            new = cand
            break
        spare.append(cand)
    if new is None:
        return "no-reuse", ""
    for a in names:
        nb = getattr(new, a)
        if nb is held[a]:
            return "shared", f"a new owner allocated at the address of a dead one got the dead owner's bound signal for {a}"
        ev = attr_ev[a](0)
        nb.dispatch(ev)
        if ev.source is not new:
            return "source", f"an event dispatched on {a} of a new owner allocated at the address of a dead one carries source {ev.source!r}"
    return "ok", ""


def gc_check(cls: Any, kind: str, names: list[str]) -> tuple[bool, list[Any]]:
    inst = make_instance(cls, kind, 99)
    held = [getattr(inst, a) for a in names]
    ref = weakref.ref(inst)
    del inst
    gc.collect()
    return ref() is not None, held





def plan(tier: str) -> dict[str, Any]:
    n_rand = 1000 if tier == "quick" else 100000
    return {"cases": len(_ENUM) + n_rand + 1, "budget_s": 60 if tier == "quick" else 1200, "min_per_shard": 40, "min_cases": len(_ENUM)}


def _enum_cases() -> list[dict[str, Any]]:
    cases = []
    for n_attrs, n_inst in itertools.product([1, 2, 3], [1, 2, 3]):
        npairs = n_attrs * n_inst
        layouts = []
        for where in itertools.product(["base", "sub", "override"], repeat=n_attrs):
            sub = any(w != "base" for w in where)
            layouts.append({"n_event_classes": 2, "owner_kind": "plain", "subclass": sub,
                            "attrs": [{"name": f"s{j}", "ev": j % 2, "where": w, "base_ev": (j + 1) % 2} for j, w in enumerate(where)]})
        for lay in layouts:
            if npairs <= 4:
                orders = [list(p) for p in itertools.permutations(range(npairs))]
            else:
                orders = [list(range(npairs)), list(reversed(range(npairs)))]
            for order in orders:
                for backend in ("asyncio", "trio"):
                    cases.append({"kind": "enum", "layout": lay, "n_instances": n_inst, "order": order, "backend": backend,
                                  "gc": len(cases) % 8 == 0})
    return cases


_ENUM = _enum_cases()


def priority_cases(tier: str) -> list[int]:
    return [plan(tier)["cases"] - 1]  # the suite run carries a deciding counter: never cut it off at the budget


def gen_case(idx: int, seed: int, tier: str) -> Any:
    if idx == plan(tier)["cases"] - 1:
        return {"kind": "suite", "timeout_s": 600}  # the repository's own tests as one more workload, with the contract on
    if idx < len(_ENUM):
        return _ENUM[idx]
    rng = case_rng(PROPERTY, seed, idx)
    if (idx - len(_ENUM)) % 50 == 7:
        # the library's own classes: a context, its child contexts and the context a component sees while it starts each have their
        # own `resource_added` channel
        return {"kind": "library", "backend": rng.choice(["asyncio", "trio"]), "children": rng.randint(1, 3), "slash_alias": rng.random() < 0.5}
    n_attrs = rng.randint(1, 4)
    sub = rng.random() < 0.6
    attrs = []
    n_ev = rng.randint(1, 3)
    for j in range(n_attrs):
        attrs.append({"name": f"s{j}", "ev": rng.randrange(n_ev), "where": rng.choice(["base", "sub", "override"]) if sub else "base",
                      "base_ev": rng.randrange(n_ev)})
    n_inst = rng.randint(1, 4)
    order = list(range(n_attrs * n_inst))
    rng.shuffle(order)
    order = order[: rng.randint(0, len(order))]
    return {"kind": "random", "layout": {"n_event_classes": n_ev, "owner_kind": rng.choice(["plain", "plain", "slots", "frozen", "falsy"]), "subclass": sub, "attrs": attrs},
            "n_instances": n_inst, "order": order, "backend": rng.choice(["asyncio", "trio"]),
            "crowd": rng.choice([300, 520, 1100]) if rng.random() < 0.04 else 0}


def run_case(case: Any) -> dict[str, Any]:
    if case["kind"] == "suite":
        from monitors.suite_run import run_suite_with_contracts

        r = run_suite_with_contracts("Signal.__get__")
        vs = [{"key": p.get("key"), "msg": "icontract post-condition on Signal.__get__ fired while running the repository's tests: " + p.get("msg", ""), "witness": p}
              for p in r["problems"][:3]]
        return {"violations": vs, "sig": "suite", "nontrivial": False, "counters": {"suite_contract_evaluations": r["evaluations"], "suite_runs": int(r["ran"])},
                "sample": None}
    contracts.install_channel_contract()
    before = contracts.LOG.evaluations.get("Signal.__get__", 0)
    out: dict[str, Any] = {"violations": [], "counters": {}}
    if case["kind"] == "library":
        try:
            run_virtual(case["backend"], library_scenario, case, out)
        except VirtualDeadlock as e:
            out["violations"].append({"key": "channel-deadlock", "msg": str(e), "witness": {"case": case}})
        contracts.LOG.drain()
        return {"violations": out["violations"], "sig": ("library", repr(sorted(case.items()))), "nontrivial": True, "counters": out["counters"], "sample": None}
    try:
        run_virtual(case["backend"], scenario, case, out)
    except VirtualDeadlock as e:
        out["violations"].append({"key": "channel-deadlock", "msg": str(e), "witness": {"case": case}})
    for p in contracts.LOG.drain():
        if len(out["violations"]) < 8 and not any(v["key"] == p["key"] for v in out["violations"]):
            out["violations"].append({"key": p["key"], "msg": "icontract post-condition on Signal.__get__: " + p["msg"], "witness": {"case": case, **p}})
    out["counters"]["contract_evaluations"] = contracts.LOG.evaluations.get("Signal.__get__", 0) - before
    npairs = len(case["layout"]["attrs"]) * case["n_instances"]
    sample = case if (case["kind"] == "random" and npairs >= 4 and len(case["order"]) >= 3) else None
    return {"violations": out["violations"], "sig": case, "nontrivial": npairs >= 2, "counters": out["counters"], "sample": sample}


LEVEL_TEXT = (
    "Runtime contract (icontract post-condition on the real Signal.__get__: topic, event class and owner of every binding) plus a "
    "delivery-matrix oracle on real streams: one subscriber and one event per (instance, attribute) channel, matrix must be the "
    "identity; pairwise identity of bound signals; TypeError / UnboundSignal / weak-reference checks. All first-access orders are "
    "enumerated for layouts with <= 4 channels (exhaustive for that bound); larger and exotic layouts are sampled."
)
LEVEL_NOTE = "Trusted: the harness. Owners that are unhashable or not weak-referenceable are not generated."
TECHNIQUE = "icontract post-condition on the descriptor + delivery-matrix oracle over enumerated access orders"
DESIGN_REF = "DESIGN.md section 3, C11"
