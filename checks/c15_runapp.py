"""C15 - run_application: every ending tears down the root context and exits as documented.

Deciding method: the real run_application() is executed on the main thread of a worker (virtual time
through backend_options, both backends) with component trees of 1-5 components whose prepare() /
start() register teardown probes on the root context, and one *enumerated* ending per scenario:
every run() result class of a CLI application, run() raising, a failure in every (component,
phase), start-up timeout, SIGINT / SIGTERM raised from every (component, phase) probe, during
run() and after start-up of a non-CLI application, a service task crashing during / after start-up.
Oracle: the teardown probes registered before the ending must each run exactly once, in reverse
registration order, before run_application returns or raises; the outcome (return / SystemExit code /
propagated exception) must be the documented one.
"""
from __future__ import annotations

import itertools
import signal
import warnings
from typing import Any

import anyio

import vkit  # noqa: F401
from vkit import vtime
from vkit.harness import case_rng
from vkit.trace import Trace, contains_same, describe_exc, make_exc

PROPERTY = "C15"
LEVEL = "fault_enumeration"
ENGINE = "E6 application scenarios"
ANCHORS = ["asphalt.core._runner:run_application", "asphalt.core._runner:_run_application_async", "asphalt.core._runner:handle_signals"]
# every class of run() result: None, ints inside / outside 0-127 (bools are ints), truthy and *falsy* non-ints
RESULTS: list[Any] = [None, 0, 1, 5, 127, 128, -1, 1000, True, False, 3.5, "x", "", 0.0, [], {}, b""]
RULE = (
    "per tree shape (1-5 components, each registering 1-3 teardown probes in prepare() and start()) ALL endings are enumerated: 17 run() results (None, ints in and out of range, bools, truthy and falsy non-ints), "
    "run() raising {ValueError, custom Exception}, failure in every (component, phase in ctor/prepare/start), start-up timeout, each of SIGINT/SIGTERM "
    "raised from every (component, phase) probe, during a CLI run(), and after start-up of a non-CLI application, a service task crashing during "
    "start-up and after it; both backends. "
    "Teardown probes are sync, async, or async-and-waiting; components may start idle service tasks whose teardown action is a function / unhashable callable object / built-in bound method; the start-up timeout strikes in prepare() or start() of every component. "
    "Non-trivial: >= 2 teardown probes registered before the ending; distinct = (tree, ending, backend).")
DECIDING = {
    "scenarios": "scenarios executed",
    "ending_result": "CLI run() results",
    "ending_run_raises": "CLI run() raising",
    "ending_fail": "component failing during start-up",
    "ending_timeout": "start-up timeout",
    "ending_signal_startup": "signal during start-up",
    "ending_signal_after": "signal after start-up (non-CLI)",
    "ending_signal_during_run": "signal during a CLI run()",
    "ending_service_crash_after": "service task crashing after start-up",
    "ending_service_crash_during": "service task crashing during start-up",
    "teardown_probes_registered_during_teardown": "callbacks registered on the root context while it was being torn down",
    "teardown_probes_checked": "teardown probes whose exactly-once / reverse order was checked",
}
ASSUMPTIONS = [
    "for a crash of a service task during start-up and a signal during a CLI run() the statement fixes no outcome: only the teardown is checked",
    "one signal per scenario, raised with signal.raise_signal while the application's signal receiver is installed",
]


def tree_shapes() -> list[list[dict[str, Any]]]:
    """small fixed family of tree shapes: list of nodes {path, parent}"""
    shapes = [
        [""],
        ["", "a"],
        ["", "a", "b"],
        ["", "a", "a.x"],
        ["", "a", "b", "a.x", "a.y"],
    ]
    return [[{"path": p} for p in s] for s in shapes]


def endings_for(tree: list[dict[str, Any]]) -> list[dict[str, Any]]:
    out: list[dict[str, Any]] = []
    for v in RESULTS:
        out.append({"kind": "result", "value": v, "cli": True})
    for exc in ("ValueError", "Custom"):
        out.append({"kind": "run_raises", "exc": exc, "cli": True})
    for n in tree:
        for phase in ("ctor", "prepare", "start"):
            out.append({"kind": "fail", "path": n["path"], "phase": phase, "exc": "ValueError", "cli": False})
            if phase == "start":
                # a component failing with an exception that is no Exception (a library's own BaseException subclass): a start-up
                # failure like any other
                out.append({"kind": "fail", "path": n["path"], "phase": phase, "exc": "BaseCustom", "cli": False})
            for sig in ("SIGINT", "SIGTERM"):
                if phase != "ctor":
                    out.append({"kind": "signal_startup", "path": n["path"], "phase": phase, "sig": sig, "cli": phase == "start" and n["path"] == ""})
    # start-up stalls in prepare() or start() of any one component until the timeout strikes
    for n in tree:
        for phase in ("prepare", "start"):
            out.append({"kind": "timeout", "path": n["path"], "phase": phase, "cli": False})
    for sig in ("SIGINT", "SIGTERM"):
        out.append({"kind": "signal_after", "sig": sig, "cli": False})
        out.append({"kind": "signal_during_run", "sig": sig, "cli": True})
        # the signal arrives while the last start-up step cannot be interrupted (a blocking call in a worker thread): whether that
        # still counts as "during start-up" the statement does not say - but the application ends and is torn down
        out.append({"kind": "signal_shielded", "sig": sig, "cli": False})
    out.append({"kind": "service_crash_after", "exc": "Custom", "cli": False})
    out.append({"kind": "service_crash_after", "exc": "ValueError", "cli": True})
    out.append({"kind": "service_crash_during", "exc": "ValueError", "cli": False})
    return out


def all_scenarios() -> list[dict[str, Any]]:
    out = []
    for ti, tree in enumerate(tree_shapes()):
        for e in endings_for(tree):
            for backend in ("asyncio", "trio"):
                out.append({"tree_index": ti, "ending": e, "backend": backend})
    return out


_ALL = all_scenarios()


def plan(tier: str) -> dict[str, Any]:
    reps = 6 if tier == "quick" else 600
    return {"cases": len(_ALL) * reps, "budget_s": 120 if tier == "quick" else 1500, "min_per_shard": 30, "min_cases": len(_ALL)}


def exhaustive(tier: str) -> bool:
    return False


def gen_case(idx: int, seed: int, tier: str) -> Any:
    base = dict(_ALL[idx % len(_ALL)])
    rng = case_rng(PROPERTY, seed, idx)
    tree = tree_shapes()[base["tree_index"]]
    for n in tree:
        n["td_prepare"] = rng.randint(1, 3) if rng.random() < 0.8 else 0
        n["td_start"] = rng.randint(1, 3) if rng.random() < 0.8 else 0
        n["ct_start"] = rng.random() < 0.3
        # ... which, every fourth time, decides at run time that it has nothing to clean up and returns before its yield
        n["ct_no_yield"] = n["ct_start"] and rng.random() < 0.25
        n["svc_prepare"] = rng.choice([None, None, None, None, "function", "unhashable_object", "builtin", "raising"])
        n["svc_start"] = rng.choice([None, None, None, None, "function", "unhashable_object", "builtin", "raising"])
        n["sleep_prepare"] = rng.choice([0, 0.5, 1])
        n["sleep_start"] = rng.choice([0, 0.5, 1])
        n["has_prepare"] = n["td_prepare"] > 0 or bool(n["svc_prepare"]) or rng.random() < 0.5
        if base["ending"].get("phase") == "prepare" and base["ending"].get("path") == n["path"]:
            n["has_prepare"] = True
    base["tree"] = tree
    base["sched_seed"] = rng.randrange(1 << 30)
    base["td_salt"] = rng.randrange(4)
    base["root_as_reference"] = rng.random() < 0.3
    return base


class Scenario:
    def __init__(self, case: dict[str, Any]) -> None:
        self.case = case
        self.trace = Trace()
        self.injected: BaseException | None = None
        self.outcome: Any = None

    def log(self, kind: str, actor: Any, **kw: Any) -> None:
        self.trace.log(kind, actor, **kw)

    def raise_signal(self, name: str) -> None:
        signum = getattr(signal, name)
        if signal.getsignal(signum) in (signal.SIG_DFL, signal.default_int_handler, None):
            # the application's receiver is not installed: raising would kill / interrupt the worker
            self.log("signal-not-armed", name)
            return
        self.log("signal-raised", name)
        signal.raise_signal(signum)

    def build(self) -> Any:
        from asphalt.core import CLIApplicationComponent, Component, add_teardown_callback, start_service_task

        sc = self
        case = self.case
        ending = case["ending"]
        nodes = {n["path"]: n for n in case["tree"]}
        children: dict[str, list[str]] = {p: [] for p in nodes}
        for p in nodes:
            if p:
                parent = p.rsplit(".", 1)[0] if "." in p else ""
                children[parent].append(p)
        classes: dict[str, Any] = {}
        counter = [0]

        def reg_teardowns(path: str, phase: str, n: int) -> None:
            for _ in range(n):
                counter[0] += 1
                tid = counter[0]
                form = (tid + case.get("td_salt", 0)) % 4
                if form == 0:
                    # an asynchronous callback that really waits for something (closing a connection): when the application is
                    # being cancelled it is interrupted at that point - and the remaining callbacks must run all the same
                    async def acb(tid: int = tid) -> None:
                        sc.log("td-run", tid, form="async-waiting")
                        await anyio.sleep(0.01)

                    add_teardown_callback(acb)
                elif form == 1 and tid % 2:
                    # a plain callable whose return value is an awaitable object that is not a coroutine (`conn.close` of a
                    # library that returns a future-like object): the work happens when that object is awaited
                    class Closing:
                        def __init__(self, tid: int) -> None:
                            self.tid = tid

                        def __await__(self) -> Any:
                            sc.log("td-run", self.tid, form="awaitable-object")
                            return None
                            yield  # pragma: no cover

                    if tid % 4 == 3:
                        # ... or a generator-based coroutine (`@types.coroutine`): awaitable too, though neither a coroutine object
                        # nor an instance of collections.abc.Awaitable
                        import types

                        @types.coroutine
                        def closing(tid: int = tid) -> Any:
                            sc.log("td-run", tid, form="generator-based-coroutine")
                            return None
                            yield  # pragma: no cover

                        add_teardown_callback(closing)
                    else:
                        add_teardown_callback(lambda tid=tid: Closing(tid))
                elif form == 1:
                    async def acb0(tid: int = tid) -> None:
                        sc.log("td-run", tid, form="async")

                    add_teardown_callback(acb0)
                elif form == 2 and (tid + case.get("td_salt", 0)) % 3 == 0:
                    # a callback that registers one more callback while the teardown is running: that one runs next
                    counter[0] += 1
                    late_tid = counter[0]

                    def registering(tid: int = tid, late_tid: int = late_tid) -> None:
                        sc.log("td-run", tid, form="sync-registering")
                        add_teardown_callback(lambda: sc.log("td-run", late_tid, form="sync-late"))
                        sc.log("td-reg", late_tid, by=path, phase="teardown", late=True)

                    add_teardown_callback(registering)
                elif tid % 3 == 0:
                    # a bound method of an object nothing else refers to (`add_teardown_callback(LockFile(path).release)`)
                    class LockFile:
                        def __init__(self, tid: int) -> None:
                            self.tid = tid

                        def release(self) -> None:
                            sc.log("td-run", self.tid, form="method-of-a-temporary")

                    add_teardown_callback(LockFile(tid).release)
                else:
                    add_teardown_callback(lambda tid=tid: sc.log("td-run", tid, form="sync"))
                sc.log("td-reg", tid, by=path, phase=phase)

        async def phase_body(path: str, phase: str) -> None:
            node = nodes[path]
            sc.log("phase-begin", path, phase=phase)
            reg_teardowns(path, phase, node[f"td_{phase}"])
            if node.get(f"svc_{phase}"):
                # an idle service task of the application; its teardown action (a callable in one of several forms) is one more
                # teardown step of the root context, observed when it is invoked
                counter[0] += 1
                stid = counter[0]
                form = node[f"svc_{phase}"]
                stop = anyio.Event()

                from asphalt.core import current_context as _cur

                app_ctx = _cur()  # what the component sees as its context (it stands for the root context)
                counter[0] += 1
                res_tid = counter[0]

                async def idle() -> None:
                    # the service adds something to the application's context - not to its own - with a teardown callback: that is
                    # one more teardown step of the root context
                    # (published under two types - an interface and its implementation - with ONE teardown callback)
                    Impl = type(f"Impl{res_tid}", (), {})  # noqa: N806
                    Iface = type(f"Iface{res_tid}", (), {})  # noqa: N806
                    app_ctx.add_resource(Impl(), f"svc_res{res_tid}", types=[Iface, Impl],
                                         teardown_callback=lambda: sc.log("td-run", res_tid, form="resource-added-by-service"))
                    sc.log("td-reg", res_tid, by=path, phase=phase + "-service")
                    await stop.wait()

                def stop_action() -> None:
                    sc.log("td-run", stid, form="service-action:" + form)
                    if form == "raising":
                        # the stop request itself fails: the service is cancelled instead, and that is all - the teardown goes on
                        # and the application still ends the documented way
                        raise RuntimeError("could not ask the service to stop")
                    stop.set()

                action: Any = stop_action
                if form == "unhashable_object":
                    action = type("Stopper", (), {"__call__": lambda self: stop_action(), "__eq__": lambda s, o: s is o, "__hash__": None})()
                elif form == "builtin":
                    action = [type("Trigger", (), {"__lt__": lambda s, o: bool(stop_action())})() for _ in range(2)].sort
                await start_service_task(idle, f"idle{stid}", teardown_action=action)
                sc.log("td-reg", stid, by=path, phase=phase)
            if ending["kind"] == "service_crash_during" and path == "" and phase == ("prepare" if node["has_prepare"] else "start"):
                async def crasher() -> None:
                    await anyio.sleep(0.25)
                    sc.injected = make_exc(ending["exc"], "service")
                    sc.log("service-crash", "svc")
                    raise sc.injected

                await start_service_task(crasher, "crasher")
                await anyio.sleep(5)  # start-up is still going on when the service crashes
            if node[f"sleep_{phase}"]:
                await anyio.sleep(node[f"sleep_{phase}"])
            if ending["kind"] == "fail" and ending["path"] == path and ending["phase"] == phase:
                sc.injected = make_exc(ending["exc"], path)
                sc.log("fail", path, phase=phase)
                raise sc.injected
            if ending["kind"] == "signal_startup" and ending["path"] == path and ending["phase"] == phase:
                sc.raise_signal(ending["sig"])
                await anyio.sleep(30)  # start-up would go on; the signal must interrupt it
                sc.log("startup-continued-after-signal", path)
            if ending["kind"] == "signal_shielded" and path == "" and phase == "start":
                with anyio.CancelScope(shield=True):
                    sc.raise_signal(ending["sig"])
                    await anyio.sleep(0.5)
            if ending["kind"] == "timeout" and path == ending.get("path", "") and phase == ending.get("phase", "start"):
                await anyio.sleep(1000)
            if path == "" and phase == "start" and ending["kind"] in ("signal_after", "service_crash_after"):
                async def later() -> None:
                    await anyio.sleep(3)
                    if ending["kind"] == "signal_after":
                        sc.raise_signal(ending["sig"])
                        await anyio.sleep_forever()
                    sc.injected = make_exc(ending["exc"], "service")
                    sc.log("service-crash", "svc")
                    raise sc.injected

                await start_service_task(later, "later")
            sc.log("phase-end", path, phase=phase)

        def make(path: str) -> Any:
            node = nodes[path]

            def __init__(self: Any, **kw: Any) -> None:
                sc.log("ctor", path)
                if ending["kind"] == "fail" and ending["path"] == path and ending["phase"] == "ctor":
                    sc.injected = make_exc(ending["exc"], path)
                    raise sc.injected
                for c in children[path]:
                    self.add_component(c.rsplit(".", 1)[-1], classes[c])

            ns: dict[str, Any] = {"__init__": __init__}
            if node["has_prepare"]:
                async def prepare(self: Any) -> None:
                    await phase_body(path, "prepare")

                ns["prepare"] = prepare

            async def start(self: Any) -> None:
                await phase_body(path, "start")

            if node.get("ct_start"):
                # start() written as an async generator under @context_teardown: its second half is a teardown step of the root
                # context, registered when the first half (which registers callbacks of its own) reaches the yield
                from asphalt.core import context_teardown

                counter[0] += 1000  # ids of its own range
                ct_tid = counter[0]

                @context_teardown
                async def start(self: Any, ct_tid: int = ct_tid) -> Any:  # noqa: F811
                    await phase_body(path, "start")
                    if node.get("ct_no_yield"):
                        sc.log("ct-no-yield", path)
                        return  # nothing of its own to tear down: the start-up goes on as after any other start()
                    sc.log("td-reg", ct_tid, by=path, phase="start-yield")
                    yield
                    sc.log("td-run", ct_tid, form="context_teardown")

            ns["start"] = start
            base: Any = Component
            if path == "" and ending["cli"]:
                base = CLIApplicationComponent

                async def run(self: Any) -> Any:
                    sc.log("run-begin", "root")
                    if ending["kind"] == "result":
                        return ending["value"]
                    if ending["kind"] == "run_raises":
                        sc.injected = make_exc(ending["exc"], "run")
                        raise sc.injected
                    if ending["kind"] == "signal_during_run":
                        await anyio.sleep(1)
                        sc.raise_signal(ending["sig"])
                        await anyio.sleep(2)
                        return 0
                    await anyio.sleep(20)  # e.g. waiting for a service task to crash
                    return 0

                ns["run"] = run
            elif path == "" and case.get("td_salt", 0) % 2:
                # an ordinary (non-CLI) root component that happens to have a method called run() - say the body of a worker it
                # would start itself: having it makes nothing a CLI application, and nobody but the component calls it
                async def run(self: Any) -> Any:  # noqa: F811
                    sc.log("foreign-run-called", "root")
                    await anyio.sleep(1000)

                ns["run"] = run
                sc.log("foreign-run-defined", "root")
            return type("App_" + (path.replace(".", "_") or "root"), (base,), ns)

        for path in sorted(nodes, key=lambda p: -p.count(".") - (1 if p else 0)):
            classes[path] = make(path)
        return classes[""]

    def execute(self) -> None:
        from asphalt.core import run_application

        case = self.case
        root = self.build()
        if case.get("root_as_reference"):
            # the root component named the way configuration files name it: as a `module:attribute` reference
            import sys
            import types as _types

            dyn = sys.modules.setdefault("verif_dyn_components", _types.ModuleType("verif_dyn_components"))
            setattr(dyn, "C15Root", root)
            root = "verif_dyn_components:C15Root"
            self.log("root-as-reference", "harness")
        if case["backend"] == "trio":
            vtime._seed_trio(case["sched_seed"], False)
        timeout = 10 if case["ending"]["kind"] == "timeout" else (None if case["ending"]["kind"] == "signal_shielded" else 500)
        self.log("call", "harness")
        with warnings.catch_warnings(record=True) as w:
            warnings.simplefilter("always")
            try:
                ret = run_application(root, {}, backend=case["backend"], backend_options=vtime.backend_options(case["backend"]),
                                      start_timeout=timeout, logging=None)
                self.outcome = ("return", ret)
            except SystemExit as e:
                self.outcome = ("exit", e.code)
            except BaseException as e:
                self.outcome = ("raise", e)
        self.log("back", "harness", outcome=self.outcome[0])
        self.warnings = [str(x.message) for x in w]


def check(sc: Scenario) -> tuple[list[dict[str, Any]], dict[str, int]]:
    case = sc.case
    ending = case["ending"]
    ev = sc.trace.events
    V: list[dict[str, Any]] = []
    c: dict[str, int] = {"scenarios": 1}

    def bad(key: str, msg: str) -> None:
        if not any(v["key"] == key for v in V):
            V.append({"key": key, "msg": msg, "witness": {"case": case, "trace": sc.trace.compact(80), "outcome": describe_outcome(sc.outcome)}})

    kind = ending["kind"]
    c[{"result": "ending_result", "run_raises": "ending_run_raises", "fail": "ending_fail", "timeout": "ending_timeout", "signal_startup": "ending_signal_startup",
       "signal_after": "ending_signal_after", "signal_during_run": "ending_signal_during_run", "service_crash_after": "ending_service_crash_after",
       "service_crash_during": "ending_service_crash_during", "signal_shielded": "ending_signal_during_an_uninterruptible_last_startup_step"}[kind]] = 1
    if any(e["kind"] == "signal-not-armed" for e in ev):
        bad("app-signal-receiver-missing", f"no handler was installed for {ending.get('sig')} when the scenario wanted to deliver it")
    # ---- teardown: exactly once, reverse order, before run_application came back
    back = next(e["seq"] for e in ev if e["kind"] == "back")
    regs = [e["actor"] for e in ev if e["kind"] == "td-reg"]
    runs = [e["actor"] for e in ev if e["kind"] == "td-run"]
    c["teardown_probes_checked"] = len(regs)
    # (a stack simulation rather than a comparison of two lists: a callback may register another one while the teardown runs)
    stack: list[Any] = []
    order_ok = True
    for e in ev:
        if e["kind"] == "td-reg":
            stack.append(e["actor"])
        elif e["kind"] == "td-run":
            if stack and stack[-1] == e["actor"]:
                stack.pop()
            else:
                order_ok = False
                if e["actor"] in stack:
                    stack.remove(e["actor"])
    dup = sorted({t for t in runs if runs.count(t) > 1})
    if stack or dup or not order_ok or sorted(runs) != sorted(regs):
        missing = [t for t in regs if t not in runs]
        why = f"never run: {missing}" if missing else (f"run twice: {dup}" if dup else "wrong order")
        bad(f"app-teardown[{kind}]", f"teardown probes registered {regs}, run {runs} ({why}) for ending {ending}")
    if any(e.get("late") for e in ev if e["kind"] == "td-reg"):
        c["teardown_probes_registered_during_teardown"] = sum(1 for e in ev if e["kind"] == "td-reg" and e.get("late"))
    if any(e["kind"] == "td-run" and e["seq"] > back for e in ev):
        bad("app-teardown-late", "a teardown probe ran after run_application had returned")
    # ---- outcome table
    o = sc.outcome
    if kind == "result":
        v = ending["value"]
        if v is None or (isinstance(v, int) and v == 0):
            want: Any = ("return", None)
        elif isinstance(v, int) and 1 <= v <= 127:
            want = ("exit", v)
        else:
            want = ("exit", 1)
        if o != want:
            bad("app-outcome[result]", f"run() returned {v!r}: expected {describe_outcome(want)}, got {describe_outcome(o)}")
    elif kind == "run_raises":
        if o[0] != "raise" or not contains_same(o[1], sc.injected):
            bad("app-outcome[run_raises]", f"run() raised {describe_exc(sc.injected)}: expected it to propagate, got {describe_outcome(o)}")
    elif kind in ("fail", "timeout", "signal_startup"):
        if o != ("exit", 1):
            bad(f"app-outcome[{kind}]", f"ending {ending}: expected SystemExit(1), got {describe_outcome(o)}")
        if kind == "signal_startup" and any(e["kind"] == "startup-continued-after-signal" for e in ev):
            bad("app-signal-ignored", f"start-up continued for 30 virtual seconds after {ending['sig']} was delivered")
    elif kind == "signal_shielded":
        if o not in (("return", None), ("exit", 1)):
            bad("app-outcome[signal_shielded]", f"{ending['sig']} during an uninterruptible last start-up step: expected a clean return or SystemExit(1), "
                                                f"got {describe_outcome(o)}")
    elif kind == "signal_after":
        if o != ("return", None):
            bad("app-outcome[signal_after]", f"{ending['sig']} after start-up of a non-CLI application: expected a clean return, got {describe_outcome(o)}")
    elif kind == "service_crash_after":
        if o[0] != "raise" or not contains_same(o[1], sc.injected):
            bad("app-outcome[service_crash]", f"a service task raised {describe_exc(sc.injected)} after start-up: expected it to propagate, got {describe_outcome(o)}")
    if kind in ("signal_after", "signal_during_run", "signal_startup", "signal_shielded") and not any(e["kind"] in ("signal-raised", "signal-not-armed") for e in ev):
        bad("app-ended-too-early", f"the application ended ({describe_outcome(o)}) before the scenario could deliver {ending['sig']}: a started non-CLI "
                                   f"application must keep running until it is told to stop")
    if kind == "service_crash_after" and not any(e["kind"] == "service-crash" for e in ev):
        bad("app-ended-too-early", f"the application ended ({describe_outcome(o)}) before its service task crashed")
    if any(e["kind"] == "root-as-reference" for e in ev):
        c["applications_whose_root_component_was_named_by_a_reference_string"] = 1
    if any(e["kind"] == "ct-no-yield" for e in ev):
        c["ctxteardown_starts_that_returned_before_their_yield"] = sum(1 for e in ev if e["kind"] == "ct-no-yield")
    if any(e["kind"] == "foreign-run-defined" for e in ev):
        c["non_cli_roots_with_a_method_named_run"] = 1
        if any(e["kind"] == "foreign-run-called" for e in ev):
            bad("app-run-of-non-cli-called", "the root component is not a CLIApplicationComponent, yet run_application called its method named run()")
    # signal_during_run / service_crash_during: the statement fixes no outcome
    return V, c


def describe_outcome(o: Any) -> str:
    if o is None:
        return "<none>"
    if o[0] == "raise":
        return f"raise {describe_exc(o[1])}"
    return f"{o[0]} {o[1]!r}"


def run_case(case: Any) -> dict[str, Any]:
    # a harmless handler so that a stray SIGTERM can never kill the worker
    old_term = signal.signal(signal.SIGTERM, signal.SIG_DFL)
    sc = Scenario(case)
    try:
        sc.execute()
    except BaseException as e:  # VirtualDeadlock from the loop, or KeyboardInterrupt from a signal nobody received
        if isinstance(e, KeyboardInterrupt) and "injected" not in str(e) and not any(x["kind"] == "signal-raised" for x in sc.trace.events):
            raise
        sc.outcome = ("raise", e)
        sc.trace.log("back", "harness", outcome="escaped")
    finally:
        signal.signal(signal.SIGTERM, old_term)
    V, c = check(sc)
    n_regs = c.get("teardown_probes_checked", 0)
    sample = None
    if n_regs >= 3 and case["ending"]["kind"] in ("signal_startup", "fail", "service_crash_after"):
        sample = {"ending": case["ending"], "backend": case["backend"], "outcome": describe_outcome(sc.outcome), "trace": sc.trace.compact(50)}
    return {"violations": V, "sig": (case["tree_index"], case["ending"], case["backend"], sc.trace.signature()), "nontrivial": n_regs >= 2,
            "counters": c, "sample": sample}


LEVEL_TEXT = (
    "Fault enumeration on the real run_application (main thread, virtual time, both backends): for each tree shape every way the application "
    "can end - each run() result class, run() raising, a failure in every (component, phase), timeout, SIGINT/SIGTERM delivered from every "
    "(component, phase) probe, during run() and after start-up, service-task crashes - is executed and a trace checker decides exactly-once / "
    "reverse-order teardown before the call comes back and the documented outcome. Exhaustive over the listed endings per tree shape; tree "
    "shapes and timings are a fixed small family with randomised probe counts and durations."
)
LEVEL_NOTE = "Trusted: the scenario builder, virtual clocks; signals are raised synchronously with signal.raise_signal inside probes (main thread)."
TECHNIQUE = "enumerated fault/ending injection with a teardown trace checker and an outcome table"
DESIGN_REF = "DESIGN.md section 3, C15"
