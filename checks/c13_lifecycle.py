"""C13 - context lifecycle: usable only from entry to end of teardown, entered once.

Deciding method: every cell of the matrix {never entered, open, inside a teardown callback, closed
after clean / failing-block / raising-teardown / cancelled exit} x {add_resource,
add_resource_factory, get_resource, get_resource_nowait, add_teardown_callback, re-entry, closed} x
{root, nested} x {asyncio, trio} is executed on the real Context *completely on every run*; on top,
random lifecycle programs apply several operations in random order in each state of one context.
A shadow state machine derived only from the observed enter/exit boundaries predicts for every call
whether it must return or raise RuntimeError; rejected calls must change nothing (checked by entering
afterwards, by get_resources, by the teardown log and by factory call counts).
"""
from __future__ import annotations

import itertools
from typing import Any

import anyio
from anyio import CancelScope, create_task_group
from anyio.lowlevel import checkpoint

import vkit  # noqa: F401
from vkit.harness import case_rng
from vkit.trace import describe_exc
from vkit.vtime import VirtualDeadlock, run_virtual

PROPERTY = "C13"
LEVEL = "fault_enumeration"
ENGINE = "lifecycle matrix"
ANCHORS = [
    "asphalt.core._context:Context._ensure_state",
    "asphalt.core._context:Context.__aenter__",
    "asphalt.core._context:Context.__aexit__",
]
STATES = ["inactive", "open", "closing", "closed_clean", "closed_block_failed", "closed_teardown_raised", "closed_cancelled"]
OPS = ["add_resource", "add_resource_factory", "get_resource", "get_resource_nowait", "add_teardown_callback", "reenter", "closed"]
RULE = (
    "complete enumeration of the state x operation x {root,nested} x backend matrix (7 x 7 x 2 x 2 = 196 cells, each in a fresh event "
    "loop; the 5 delegated operations in the 6 entered states additionally through a retained ComponentContext: + 120 cells) "
    "loop) plus the open-child-at-exit cases, plus random lifecycle programs (0-4 operations in random order in each of the states one "
    "context passes through, random ending). Non-trivial: a case in which at least one call had to be rejected and at least one had to "
    "be accepted; distinct = (state/ops program, ending, kind, backend)."
)
DECIDING = {
    "cells_enumerated": "cells of the complete matrix executed",
    "rejected_calls_checked": "calls that must raise RuntimeError",
    "accepted_calls_checked": "calls that must succeed",
    "rejected_then_entered": "rejected call before entry followed by entry and inspection (changed nothing)",
    "ops_inside_teardown": "operations applied inside a teardown callback",
    "ops_through_component_context": "operations applied through a ComponentContext retained from a component's start()",
    "closed_flip_checked": "closed flag sampled right before the block end and in the first teardown callback",
    "equal_sibling_cases": "value-equal sibling contexts open at once under one parent",
    "open_child_exit_cases": "parent left while a child entered from it is still open",
    "state_closed_teardown_raised": "state after a teardown that raised",
    "state_closed_cancelled": "state after a cancelled exit",
}
ASSUMPTIONS = [
    "RuntimeError is the only accepted rejection; its message is not checked",
    "get_resources() is not part of the statement and is used as an inspection channel",
]


class TA:
    pass


class TB:
    pass


class TC:
    pass


class TD:
    pass


def allowed(state: str, op: str) -> bool:
    if op == "closed":
        return True
    if op == "reenter":
        return False  # only ever tried after the first entry (or in 'inactive', where it *is* the first entry)
    if state == "open":
        return True
    if state == "closing":
        return op != "add_resource_factory"
    return False


class Scenario:
    def __init__(self, case: dict[str, Any]) -> None:
        self.case = case
        self.log: list[str] = []
        self.V: list[dict[str, Any]] = []
        self.counters: dict[str, int] = {}
        self.n = 0
        self.factory_calls = 0
        self.inh_factory_calls = 0
        self.td_ran: list[int] = []
        self.td_expected: list[int] = []
        self.added: dict[str, Any] = {}  # name -> object for successfully added resources
        self.rejected_names: list[str] = []
        self.rejected_factory_names: list[str] = []
        self.accepted_factory_names: list[str] = []
        self.ctx: Any = None
        self.cc: Any = None

    def inc(self, k: str, n: int = 1) -> None:
        self.counters[k] = self.counters.get(k, 0) + n

    def bad(self, key: str, msg: str) -> None:
        self.V.append({"key": key, "msg": msg, "witness": {"case": self.case, "log": self.log[-40:]}})

    async def apply(self, state: str, op: str) -> None:
        ctx = self.ctx
        if self.case.get("via") == "component" and self.cc is not None and op in ("add_resource", "add_resource_factory", "get_resource",
                                                                                   "get_resource_nowait", "add_teardown_callback"):
            # the same operation through a ComponentContext retained from a component's start(): it delegates to the
            # application context and must obey that context's lifecycle
            ctx = self.cc
            self.inc("ops_through_component_context")
        self.n += 1
        k = self.n
        exp_ok = allowed(state, op)
        outcome: Any
        try:
            if op == "add_resource":
                obj = TC()
                ctx.add_resource(obj, f"r{k}")
                outcome = "ok"
                self.added[f"r{k}"] = obj
            elif op == "add_resource_factory":
                def fac() -> TD:
                    self.factory_calls += 1
                    return TD()

                ctx.add_resource_factory(fac, f"f{k}", types=[TD])
                outcome = "ok"
                self.accepted_factory_names.append(f"f{k}")
            elif op == "get_resource":
                before = self.inh_factory_calls
                r = await ctx.get_resource(TA, "inh", optional=True)
                r2 = await ctx.get_resource(TB, "inh", optional=True)
                # ... and one whose (inherited) factory is asynchronous: generated on first use, which may well be during teardown
                r3 = await ctx.get_resource(TD, "inh_async", optional=True)
                if self.case["nested"] and not isinstance(r3, TD):
                    self.bad(f"lifecycle-wrongly-rejected[{state},{op}]", f"get_resource() of a resource made by an asynchronous factory returned {r3!r} in state {state}")
                outcome = "ok"
            elif op == "get_resource_nowait":
                r = ctx.get_resource_nowait(TA, "inh", optional=True)
                r2 = ctx.get_resource_nowait(TB, "inh", optional=True)
                outcome = "ok"
            elif op == "add_teardown_callback":
                def cb(k: int = k) -> None:
                    self.td_ran.append(k)

                ctx.add_teardown_callback(cb)
                outcome = "ok"
            elif op == "reenter":
                await ctx.__aenter__()
                outcome = "ok"
            elif op == "closed":
                val = ctx.closed
                exp = state not in ("inactive", "open")
                self.log.append(f"{state}: closed -> {val}")
                if val is not exp:
                    self.bad(f"lifecycle-closed-flag[{state}]", f"context.closed is {val!r} in state {state}, expected {exp}")
                self.inc("accepted_calls_checked")
                return
            else:
                raise ValueError(op)
        except RuntimeError as e:
            outcome = e
        except Exception as e:
            outcome = e
        self.log.append(f"{state}: {op}#{k} -> {outcome if outcome == 'ok' else describe_exc(outcome)}")
        if exp_ok:
            self.inc("accepted_calls_checked")
            if outcome != "ok":
                self.bad(f"lifecycle-wrongly-rejected[{state},{op}]", f"{op} in state {state} must be accepted but raised {describe_exc(outcome)}")
                self.added.pop(f"r{k}", None)
            elif op == "add_teardown_callback":
                self.td_expected.append(k)
        else:
            self.inc("rejected_calls_checked")
            if outcome == "ok":
                self.bad(f"lifecycle-wrongly-accepted[{state},{op}]", f"{op} in state {state} must raise RuntimeError but returned normally")
                # keep the bookkeeping consistent with what really happened
                if op == "add_teardown_callback":
                    self.td_expected.append(k)
            elif not isinstance(outcome, RuntimeError):
                self.bad(f"lifecycle-wrong-exception[{state},{op}]", f"{op} in state {state} must raise RuntimeError but raised {describe_exc(outcome)}")
            if op == "add_resource":
                self.added.pop(f"r{k}", None)
                self.rejected_names.append(f"r{k}")
            if op == "add_resource_factory" and outcome != "ok":
                if f"f{k}" in self.accepted_factory_names:
                    self.accepted_factory_names.remove(f"f{k}")
                self.rejected_factory_names.append(f"f{k}")
        if state == "closing":
            self.inc("ops_inside_teardown")

    def inspect(self, when: str) -> None:
        """rejected add_resource calls must not have registered anything (get_resources has no lifecycle guard)"""
        try:
            vis = self.ctx.get_resources(TC)
        except Exception as e:
            self.bad("lifecycle-inspect", f"get_resources raised {describe_exc(e)} ({when})")
            return
        for name in self.rejected_names:
            if name in vis:
                self.bad("lifecycle-rejected-call-changed-state", f"{when}: resource {name!r} is registered although its add_resource call was rejected")
        for name, obj in self.added.items():
            if vis.get(name) is not obj:
                self.bad("lifecycle-accepted-add-lost", f"{when}: resource {name!r} added successfully is not visible")

    async def main(self) -> None:
        from asphalt.core import Context

        case = self.case
        ops: dict[str, list[str]] = case["ops"]
        ending = case["ending"]
        nested = case["nested"]

        def inh_factory() -> TB:
            self.inh_factory_calls += 1
            return TB()

        async def inh_async_factory() -> TD:
            self.inh_factory_calls += 1
            await checkpoint()
            return TD()

        async def body() -> None:
            self.ctx = ctx = Context()
            # a lookup *written* before entry and only awaited once the context is open happens while it is open ...
            early_lookup: Any = None
            try:
                early_lookup = ctx.get_resource(TA, "inh", optional=True)
            except RuntimeError:
                pass  # (an implementation that validates when called rather than when awaited rejects it here: just as good)
            for op in ops.get("inactive", []):
                await self.apply("inactive", op)
            if ops.get("inactive"):
                self.inspect("before entry")
            if case.get("never_enter"):
                if early_lookup is not None:
                    early_lookup.close()
                if self.inh_factory_calls:
                    self.bad("lifecycle-rejected-call-changed-state", "a rejected lookup on a never-entered context called the inherited factory")
                return
            boundary: BaseException | None = None
            late_lookup: list[Any] = []
            closed_before_end = None
            first_td_closed: list[Any] = []
            with CancelScope() as scope:
                try:
                    async with ctx:
                        if ending == "teardown_raises":
                            def raising() -> None:
                                raise ValueError("teardown failed")

                            ctx.add_teardown_callback(raising)

                        async def in_teardown() -> None:
                            for op in ops.get("closing", []):
                                await self.apply("closing", op)

                        ctx.add_teardown_callback(in_teardown)
                        if case.get("via") == "component":
                            from asphalt.core import Component, current_context, start_component

                            sc = self

                            class Holder(Component):
                                async def start(self_inner) -> None:  # noqa: N805
                                    sc.cc = current_context()

                            await start_component(Holder, timeout=None)
                        if ops.get("inactive"):
                            # calls rejected before entry must have changed nothing: look now that lookups are allowed
                            self.inc("rejected_then_entered")
                            for name in self.rejected_factory_names:
                                try:
                                    got = ctx.get_resource_nowait(TD, name, optional=True)
                                except Exception as e:
                                    got = e
                                if got is not None:
                                    self.bad("lifecycle-rejected-call-changed-state", f"factory {name!r} registered by a call rejected before entry is active: {got!r}")
                        for op in ops.get("open", []):
                            await self.apply("open", op)
                        self.inspect("while open")
                        if early_lookup is not None:
                            try:
                                await early_lookup
                                self.inc("lookups_created_before_entry_and_awaited_while_open")
                            except RuntimeError as e:
                                self.bad("lifecycle-wrongly-rejected[open,get_resource]", f"a get_resource() coroutine created before entry and awaited while "
                                                                                          f"the context was open raised {describe_exc(e)}")
                        # ... and one written while the context is open but only awaited after it was closed happens after closing
                        late_lookup.append(ctx.get_resource(TB, "inh", optional=True))

                        def first_td() -> None:
                            first_td_closed.append(ctx.closed)

                        ctx.add_teardown_callback(first_td)
                        closed_before_end = ctx.closed
                        if ending == "block_raises":
                            raise KeyError("block failed")
                        if ending == "cancelled":
                            scope.cancel()
                            await checkpoint()
                except BaseException as e:
                    boundary = e
            self.log.append(f"left: boundary={describe_exc(boundary)}")
            self.inc("closed_flip_checked")
            if closed_before_end is not False:
                self.bad("lifecycle-closed-flag[open]", f"context.closed was {closed_before_end!r} at the last statement of the block")
            if first_td_closed != [True]:
                self.bad("lifecycle-closed-flag[closing]", f"context.closed observed in the first teardown callback: {first_td_closed} (expected [True])")
            if ctx.closed is not True:
                self.bad("lifecycle-closed-flag[after]", f"context.closed is {ctx.closed!r} after the block was left (ending {ending})")
            if ending != "cancelled" and sorted(self.td_ran) != sorted(self.td_expected):
                self.bad("lifecycle-teardown-set", f"teardown callbacks that ran {sorted(self.td_ran)} != accepted registrations {sorted(self.td_expected)}")
            state = {"clean": "closed_clean", "block_raises": "closed_block_failed", "teardown_raises": "closed_teardown_raised",
                     "cancelled": "closed_cancelled"}[ending]
            self.inc("state_" + state)
            if late_lookup:
                calls = self.inh_factory_calls
                try:
                    got = await late_lookup[0]
                except RuntimeError:
                    self.inc("lookups_created_while_open_and_awaited_after_close")
                except BaseException as e:  # noqa: BLE001
                    self.bad(f"lifecycle-wrong-exception[{state},get_resource]", f"a get_resource() coroutine created while the context was open and awaited "
                                                                                  f"after it was closed raised {describe_exc(e)}, not RuntimeError")
                else:
                    self.bad(f"lifecycle-wrongly-accepted[{state},get_resource]", f"a get_resource() coroutine created while the context was open and awaited after "
                                                                                   f"it was closed returned {got!r} (factory calls made by it: {self.inh_factory_calls - calls})")
            ran_before = list(self.td_ran)
            for op in ops.get("closed", []):
                await self.apply(state, op)
            if ops.get("closed"):
                self.inspect("after close")
                if self.td_ran != ran_before:
                    self.bad("lifecycle-rejected-call-changed-state", "a teardown callback registered after close was run")

        if nested:
            async with Context() as parent:
                parent.add_resource(TA(), "inh")
                parent.add_resource_factory(inh_factory, "inh", types=[TB])
                parent.add_resource_factory(inh_async_factory, "inh_async", types=[TD])
                await body()
        else:
            await body()


async def open_child_case(case: dict[str, Any], sc: Scenario) -> None:
    """a parent is left while a child context entered from it (in another task) is still open"""
    from asphalt.core import Context

    if case.get("falsy_contexts"):
        # contexts of a subclass whose instances are falsy (a container-like context that is empty): contexts like any other
        Context = type("BagContext", (Context,), {"__len__": lambda self: 0})  # noqa: N806

    release = anyio.Event()
    child_open = anyio.Event()
    outcome: dict[str, Any] = {}

    async def child_task(parent: Any) -> None:
        if case.get("child_phase") == "abandoned":
            # the child is entered by hand in a task that then simply ends and drops its reference: it is never left, so it
            # is still an open child of its parent - also after a garbage collection
            abandoned = Context(parent) if case["explicit_parent"] else Context()
            await abandoned.__aenter__()
            del abandoned
            child_open.set()
            return
        try:
            async with (Context(parent) if case["explicit_parent"] else Context()) as child:  # (parent: a context, or what a component saw as its context)
                if case.get("child_phase") == "teardown":
                    # the child's block is over at once, but its teardown takes its time: it is not closed before that is done
                    async def slow_teardown() -> None:
                        child_open.set()
                        await release.wait()

                    child.add_teardown_callback(slow_teardown)
                else:
                    child_open.set()
                    await release.wait()
        except BaseException as e:
            outcome["child"] = e
            raise

    class BlockFailed(Exception):
        pass

    async def parent_task(tg: Any) -> None:
        try:
            with CancelScope() as leave_scope:
                async with Context() as parent:
                    if case["nested"]:
                        async with Context() as mid:
                            tg2_parent = mid
                            try:
                                async with Context() as inner_parent:
                                    tg.start_soon(child_task, inner_parent)
                                    await child_open.wait()
                            except BaseException as e:
                                outcome["parent"] = e
                            else:
                                outcome["parent"] = None
                            release.set()
                            await anyio.sleep(1)
                        return
                    given = parent
                    if case["explicit_parent"] == "component":
                        # the child is given, as its explicit parent, the object a component of this context saw as current context
                        from asphalt.core import Component, current_context, start_component

                        seen: list[Any] = []

                        class Keeper(Component):
                            async def start(self) -> None:
                                seen.append(current_context())
                                if seen[0].closed:
                                    sc.bad("lifecycle-closed-flag[component-context]", "the context a component sees in start() reports itself closed")

                        await start_component(Keeper, timeout=None)
                        given = seen[0]
                        # (that object was a context with a block of its own, which has been left by now: it is closed, and says so)
                        sc.inc("component_contexts_asked_for_their_closed_flag_after_the_start")
                        if given is not parent and not given.closed:
                            sc.bad("lifecycle-closed-flag[component-context]", "the context a component saw in start() does not report itself closed after the start-up, "
                                                                               "although it can no longer be entered")
                    if case["explicit_parent"] == "foreign_task":
                        # the child is created - with this context as its explicit parent - by a task that lives in a context tree of its
                        # own (its current context is an unrelated root)
                        foreign_parent.append(given)
                        parent_ready.set()
                    else:
                        tg.start_soon(child_task, given)
                    await child_open.wait()
                    if case.get("child_phase") == "abandoned":
                        import gc

                        await anyio.sleep(0.1)  # the child's task is over
                        gc.collect()
                    if case.get("parent_leave") == "raise":
                        if case.get("falsy_contexts"):
                            # (an exception that is a falsy object - an aggregate of errors with no entries - is an exception all the same)
                            raise type("EmptyAggregate", (BlockFailed,), {"__len__": lambda self: 0})("the parent's block failed")
                        raise BlockFailed("the parent's block failed")
                    if case.get("parent_leave") == "cancel":
                        leave_scope.cancel()
                        await checkpoint()
        except BaseException as e:
            outcome["parent"] = e
        else:
            outcome["parent"] = None
        release.set()

    foreign_parent: list[Any] = []
    parent_ready = anyio.Event()

    async def foreign_child() -> None:
        await parent_ready.wait()
        async with Context():
            await child_task(foreign_parent[0])

    try:
        async with create_task_group() as tg:
            if case["explicit_parent"] == "foreign_task":
                tg.start_soon(foreign_child)  # (started where no context is current)
            await parent_task(tg)
    except BaseException as e:
        outcome["outer"] = e
    sc.inc("open_child_exit_cases")
    sc.log.append(f"outcome: { {k: describe_exc(v) for k, v in outcome.items()} }")
    if outcome.get("parent") is None and "parent" in outcome and outcome.get("outer") is None:
        sc.bad("lifecycle-open-child-ignored", "a context was left while a child context entered from it was still open and no error was reported")
    elif case.get("parent_leave"):
        # the block's own exception (or the cancellation) is no report of the open child: a RuntimeError must have been raised as well
        sc.inc("open_child_exit_cases_with_the_parent_block_ending_abnormally")
        from vkit.trace import leaves as _leaves

        seen_excs = _leaves(outcome.get("parent")) + _leaves(outcome.get("outer"))
        if not any(isinstance(x, RuntimeError) for x in seen_excs):
            sc.bad("lifecycle-open-child-ignored", f"a context was left by {case['parent_leave']} while a child context entered from it was still open: only "
                                                   f"{[describe_exc(x) for x in seen_excs]} came out, the open child was not reported")


async def pending_cancel_case(case: dict[str, Any], sc: Scenario) -> None:
    """the block of a context is left *normally*, but its surrounding scope has just been cancelled and the cancellation has not
    been delivered yet (the last thing the block did was to cancel it; no checkpoint since): the context is left like any other -
    torn down and closed - however and whenever the cancellation then strikes"""
    from asphalt.core import Context, NoCurrentContext, current_context

    ran: list[str] = []
    observed: dict[str, Any] = {}

    async def inner_part() -> Any:
        ctx = Context()
        with CancelScope() as scope:
            try:
                async with ctx:
                    ctx.add_resource(TA(), "kept")
                    ctx.add_teardown_callback(lambda: ran.append("sync"))
                    if case["async_callback"]:
                        async def slow() -> None:
                            ran.append("async-begin")
                            await checkpoint()
                            ran.append("async-end")

                        ctx.add_teardown_callback(slow)
                    scope.cancel()
            except BaseException as e:
                observed["leave"] = e
        return ctx

    async def probe(ctx: Any, expected_current: Any) -> None:
        sc.inc("blocks_left_normally_with_a_cancellation_pending")
        if ctx.closed is not True:
            sc.bad("lifecycle-closed-flag[after]", f"a context whose block was left normally with a cancellation pending reports closed={ctx.closed!r}")
        if "sync" not in ran:
            sc.bad("lifecycle-teardown-set", f"a context whose block was left normally with a cancellation pending never ran its teardown callbacks: {ran}")
        try:
            ctx.add_resource(TB(), "late")
            sc.bad("lifecycle-wrongly-accepted[closed_cancelled,add_resource]", "add_resource() was accepted after the block had been left (normally, with a "
                                                                                "cancellation pending)")
        except RuntimeError:
            sc.inc("rejected_calls_checked")
        try:
            cur = current_context()
        except NoCurrentContext:
            cur = None
        if cur is not expected_current:
            sc.bad("lifecycle-closed-flag[after]", "after the block was left the context is still the current one" if cur is ctx else
                   "after the block was left the current context is neither the enclosing one nor none")

    if case["nested"]:
        try:
            async with Context() as parent:
                ctx = await inner_part()
                await probe(ctx, parent)
        except BaseException as e:
            sc.bad("lifecycle-open-child-ignored", f"leaving the enclosing context afterwards raised {describe_exc(e)}")
    else:
        ctx = await inner_part()
        await probe(ctx, None)
    sc.log.append(f"ran={ran} leave={describe_exc(observed.get('leave'))}")


async def busy_exit_case(case: dict[str, Any], sc: Scenario) -> None:
    """a context is left - normally or by cancellation - while another task is suspended in one of its asynchronous resource
    factories (a lookup in flight): the teardown runs all the same, the context is closed afterwards and rejects everything"""
    from asphalt.core import Context

    class R:
        pass

    ran: list[str] = []
    outcome: dict[str, Any] = {}

    async def factory() -> R:
        await anyio.sleep(5)
        return R()

    async def requester(ctx: Any) -> None:
        try:
            await ctx.get_resource(R)
        except BaseException as e:
            outcome["requester"] = e
            raise

    async def run_it() -> None:
        async with create_task_group() as tg:
            try:
                with anyio.CancelScope() as scope:
                    async with Context() as ctx:
                        outcome["ctx"] = ctx
                        ctx.add_resource_factory(factory, types=[R])
                        ctx.add_teardown_callback(lambda: ran.append("teardown"))
                        tg.start_soon(requester, ctx)
                        await anyio.sleep(0.5)
                        if case["ending"] == "cancelled":
                            scope.cancel()
                            await checkpoint()
            except BaseException as e:
                outcome["boundary"] = e
            ctx = outcome["ctx"]
            outcome["closed_after"] = bool(ctx.closed)
            for name, call in (("add_resource", lambda: ctx.add_resource(1, "late")), ("add_teardown_callback", lambda: ctx.add_teardown_callback(lambda: None)),
                               ("get_resource_nowait", lambda: ctx.get_resource_nowait(int, optional=True))):
                try:
                    call()
                    outcome.setdefault("accepted_after", []).append(name)
                except RuntimeError:
                    pass
                except Exception as e:
                    outcome.setdefault("odd_after", []).append((name, describe_exc(e)))
            tg.cancel_scope.cancel()

    if case["nested"]:
        async with Context():
            await run_it()
    else:
        await run_it()
    sc.inc("contexts_left_with_a_lookup_in_flight")
    sc.log.append(f"outcome: { {k: (describe_exc(v) if isinstance(v, BaseException) else v) for k, v in outcome.items() if k != 'ctx'} }; ran={ran}")
    if ran != ["teardown"]:
        sc.bad("lifecycle-teardown-set", f"a context left ({case['ending']}) while a lookup was suspended in one of its asynchronous factories ran its teardown callbacks {ran}")
    if outcome.get("closed_after") is not True:
        sc.bad(f"lifecycle-closed-flag[closed_{case['ending']}]", "after its block was left, a context with a lookup still in flight does not report itself closed")
    if outcome.get("accepted_after"):
        sc.bad(f"lifecycle-wrongly-accepted[closed_{case['ending']},{outcome['accepted_after'][0]}]",
               f"after its block was left, a context with a lookup still in flight still accepted {outcome['accepted_after']}")


async def equal_siblings_case(case: dict[str, Any], sc: Scenario) -> None:
    """two (or three) sibling contexts of a Context subclass with value semantics - they all compare and hash equal - are open
    at the same time under one parent and are left one after the other; then the parent is left, either after all of them
    (no error) or while the last one is still open (must be reported)"""
    from asphalt.core import Context

    Eq = type("EqContext", (Context,), {"__eq__": lambda a, b: isinstance(b, Context), "__hash__": lambda a: 5})  # noqa: N806
    n = case["siblings"]
    opened = [anyio.Event() for _ in range(n)]
    release = [anyio.Event() for _ in range(n)]
    left: list[Any] = []
    outcome: dict[str, Any] = {}

    async def child(i: int, parent: Any) -> None:
        try:
            async with (Eq(parent) if case["explicit_parent"] else Eq()) as c:
                c.add_resource(i, f"r{i}")
                opened[i].set()
                await release[i].wait()
            left.append((i, None, bool(c.closed)))
        except BaseException as e:
            left.append((i, e, None))
            if case["leave_parent_early"]:
                raise

    try:
        async with create_task_group() as tg:
            try:
                async with Eq() as parent:
                    for i in range(n):
                        tg.start_soon(child, i, parent)
                    for ev in opened:
                        await ev.wait()
                    last = n - 1 if case["leave_parent_early"] else n
                    for i in range(last):
                        release[i].set()
                        while len(left) <= i:
                            await anyio.sleep(0.01)
            except BaseException as e:
                outcome["parent"] = e
            else:
                outcome["parent"] = None
            for ev in release:
                ev.set()
    except BaseException as e:
        outcome["outer"] = e
    sc.inc("equal_sibling_cases")
    sc.log.append(f"left: {[(i, describe_exc(e) if e else None, c) for i, e, c in left]}; outcome: { {k: describe_exc(v) for k, v in outcome.items()} }")
    expected_clean = n - 1 if case["leave_parent_early"] else n
    for i, e, closed in left[:expected_clean]:
        if e is not None:
            sc.bad("lifecycle-equal-siblings", f"leaving sibling context {i} (one of {n} value-equal contexts open under one parent) raised {describe_exc(e)}")
        elif closed is not True:
            sc.bad("lifecycle-closed-flag[equal-siblings]", f"sibling context {i} does not report itself closed after its block was left")
    if case["leave_parent_early"]:
        if outcome.get("parent") is None and outcome.get("outer") is None:
            sc.bad("lifecycle-open-child-ignored", "a context was left while one of its value-equal child contexts was still open and no error was reported")
    elif outcome.get("parent") is not None or outcome.get("outer") is not None:
        sc.bad("lifecycle-equal-siblings", f"leaving the parent after all its children had been left raised: {sc.log[-1]}")


# ---------------------------------------------------------------------------------------------

ENDINGS = ["clean", "block_raises", "teardown_raises", "cancelled"]
STATE_SLOT = {"inactive": ("inactive", "clean"), "open": ("open", "clean"), "closing": ("closing", "clean"),
              "closed_clean": ("closed", "clean"), "closed_block_failed": ("closed", "block_raises"),
              "closed_teardown_raised": ("closed", "teardown_raises"), "closed_cancelled": ("closed", "cancelled")}


def matrix_cells() -> list[dict[str, Any]]:
    cells = []
    for state, op, nested, backend in itertools.product(STATES, OPS, [False, True], ["asyncio", "trio"]):
        slot, ending = STATE_SLOT[state]
        if state == "inactive" and op == "reenter":
            continue  # in 'inactive' entering is the legitimate first entry
        cells.append({"kind": "cell", "state": state, "op": op, "nested": nested, "backend": backend, "ending": ending,
                      "ops": {slot: [op]}})
        if state != "inactive" and op not in ("reenter", "closed"):
            cells.append({"kind": "cell", "state": state, "op": op, "nested": nested, "backend": backend, "ending": ending,
                          "ops": {slot: [op]}, "via": "component"})
    for nested, explicit, backend, falsy, phase in itertools.product([False, True], [False, True, "component", "foreign_task"], ["asyncio", "trio"], [False, True],
                                                                     ["block", "teardown", "abandoned"]):
        if (explicit in ("component", "foreign_task") or phase == "abandoned") and nested:
            continue
        cells.append({"kind": "open_child", "nested": nested, "explicit_parent": explicit, "backend": backend, "falsy_contexts": falsy, "child_phase": phase})
        if not nested:
            # ... and the same with the parent's block ending by an exception or by a cancellation instead of normally
            for leave in ("raise", "cancel"):
                cells.append({"kind": "open_child", "nested": nested, "explicit_parent": explicit, "backend": backend, "falsy_contexts": falsy,
                              "child_phase": phase, "parent_leave": leave})
    for ending, nested, backend in itertools.product(["clean", "cancelled"], [False, True], ["asyncio", "trio"]):
        cells.append({"kind": "busy_exit", "ending": ending, "nested": nested, "backend": backend})
    for nested, async_cb, backend in itertools.product([False, True], [False, True], ["asyncio", "trio"]):
        cells.append({"kind": "pending_cancel", "nested": nested, "async_callback": async_cb, "backend": backend})
    for siblings, explicit, early, backend in itertools.product([2, 3], [False, True], [False, True], ["asyncio", "trio"]):
        cells.append({"kind": "equal_siblings", "siblings": siblings, "explicit_parent": explicit, "leave_parent_early": early, "backend": backend})
    for nested, backend in itertools.product([False, True], ["asyncio", "trio"]):
        cells.append({"kind": "cell", "state": "inactive", "op": "all", "nested": nested, "backend": backend, "ending": "clean",
                      "never_enter": True, "ops": {"inactive": [o for o in OPS if o != "reenter"]}})
    return cells


_CELLS = matrix_cells()


def plan(tier: str) -> dict[str, Any]:
    n = len(_CELLS) + (3000 if tier == "quick" else 600000)
    return {"cases": n, "budget_s": 60 if tier == "quick" else 1200, "min_per_shard": 40, "min_cases": len(_CELLS)}


def gen_case(idx: int, seed: int, tier: str) -> Any:
    if idx < len(_CELLS):
        return _CELLS[idx]
    rng = case_rng(PROPERTY, seed, idx)
    ops = {}
    for slot in ("inactive", "open", "closing", "closed"):
        n = rng.choice([0, 1, 2, 3, 4])
        pool = [o for o in OPS if not (slot == "inactive" and o == "reenter")]
        ops[slot] = [rng.choice(pool) for _ in range(n)]
    return {"kind": "random", "nested": rng.random() < 0.5, "backend": rng.choice(["asyncio", "trio"]),
            "ending": rng.choice(ENDINGS), "ops": ops, "sched_seed": rng.randrange(1 << 30), "via": rng.choice(["context", "context", "component"])}


def run_case(case: Any) -> dict[str, Any]:
    sc = Scenario(case)
    try:
        if case["kind"] == "open_child":
            run_virtual(case["backend"], open_child_case, case, sc)
        elif case["kind"] == "equal_siblings":
            run_virtual(case["backend"], equal_siblings_case, case, sc)
        elif case["kind"] == "busy_exit":
            run_virtual(case["backend"], busy_exit_case, case, sc)
        elif case["kind"] == "pending_cancel":
            run_virtual(case["backend"], pending_cancel_case, case, sc)
        else:
            run_virtual(case["backend"], sc.main, sched_seed=case.get("sched_seed", 0))
    except VirtualDeadlock as e:
        sc.bad("lifecycle-deadlock", f"scenario never finished: {e}")
    except BaseException as e:
        if isinstance(e, (KeyboardInterrupt, SystemExit)):
            raise
        sc.bad("lifecycle-escaped", f"an exception escaped the scenario: {describe_exc(e)}")
    if case["kind"] != "random":
        sc.inc("cells_enumerated")
    rej, acc = sc.counters.get("rejected_calls_checked", 0), sc.counters.get("accepted_calls_checked", 0)
    sample = None
    if case["kind"] == "random" and rej and acc and len(sc.log) > 8:
        sample = {"case": case, "log": sc.log[:30]}
    return {"violations": sc.V[:5], "sig": case, "nontrivial": bool(rej and acc) or case["kind"] in ("open_child", "cell", "equal_siblings", "busy_exit", "pending_cancel"),
            "counters": sc.counters, "sample": sample}


def exhaustive(tier: str) -> bool:
    return False


LEVEL_TEXT = (
    "Complete enumeration, on every run and on the real Context, of the lifecycle-state x operation matrix the statement describes "
    "(each closed state reached by its own kind of exit, root and nested, both backends) with a shadow state machine as oracle; rejected "
    "calls are checked to have changed nothing by inspection after entry / through get_resources / through the teardown log / through "
    "factory call counts. Random multi-operation programs add orders and combinations. The matrix part is exhaustive, the random part sampled."
)
LEVEL_NOTE = "Trusted: the shadow state machine `allowed()` (12 lines, from the statement). Error messages are not checked; only RuntimeError counts as rejection."
TECHNIQUE = "exhaustive state x operation matrix executed on the real object + shadow state machine; random lifecycle programs"
DESIGN_REF = "DESIGN.md section 3, C13"
