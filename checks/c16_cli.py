"""C16 - `asphalt run`: documented config precedence and deterministic service selection.

Deciding method: configurations are generated (1-4 YAML files with overlapping nested keys, 0-5
--set overrides with nested / escaped-dot / YAML-typed values, service layouts none / top-level
component / one / several / with `default`, --service x ASPHALT_SERVICE in {unset, valid, unknown},
!Env / !TextFile / !BinaryFile tags) and run through the real command in two tiers: (A) in-process
with click's CliRunner and `run_application` replaced by a recorder at the public boundary
(thousands of cases) and (B) end-to-end `python -m asphalt run ...` in a real subprocess with a
fixture root component that writes the keyword arguments, backend and thread limit it was started
with.  Oracle: an independent reference model (own deep merge, own character-level --set key
parser, the selection ladder of the statement); when the model says the command must fail, the exit
status must be non-zero and nothing may have been started.
"""
from __future__ import annotations

import json
import os
import shutil
import subprocess
import tempfile
from typing import Any

import vkit
from models.cli import CliError, expected_call
from models.merge import canon
from vkit.harness import case_rng

PROPERTY = "C16"
LEVEL = "exploration"
ENGINE = "E7 differential (CLI)"
ANCHORS = ["asphalt.core._cli:run", "asphalt.core._cli:env_constructor", "asphalt.core._cli:text_file_constructor",
           "asphalt.core._cli:binary_file_constructor"]
RULE = (
    "random command lines: 1-4 YAML files (overlays of nested keys under component / services.<name> / top level), 0-5 --set overrides (paths "
    "into existing or new sections, keys with escaped dots, values int / list / mapping / empty / bool / string; rarely without '=' or through a "
    "scalar), layouts {no service at all, top-level component, 1-3 services with or without `default`}, --service and ASPHALT_SERVICE each in "
    "{unset, existing, unknown}, values tagged !Env / !TextFile / !BinaryFile. Tier A in-process (recorder), one case in 60 also Tier B in a "
    "subprocess. "
    "Dotted keys next to a section named like their first part, mappings shared through YAML anchors/aliases, a `services` section that is not a mapping. "
    "Non-trivial: >= 2 files or >= 1 override and a services layout; distinct = canonical (files, overrides, service, env) tuple.")
DECIDING = {
    "tier_a_calls_compared": "in-process runs whose recorded run_application() arguments were compared with the model",
    "tier_a_failures_checked": "in-process runs that must fail (non-zero status, nothing started)",
    "tier_b_runs": "end-to-end subprocess runs",
    "overrides_nested": "--set on nested paths",
    "overrides_escaped_dot": "--set keys with escaped dots",
    "overrides_yaml_typed": "--set values that are not plain strings",
    "later_file_overrides": "a later file overriding a key of an earlier one",
    "set_overrides_file": "--set overriding a key given in a file",
    "service_merged_over_top_level": "service section overriding / extending top-level keys",
    "selection_by_option": "service chosen by --service",
    "selection_by_env": "service chosen by ASPHALT_SERVICE",
    "selection_option_beats_env": "both given and different",
    "selection_single": "the only service auto-selected",
    "selection_default": "`default` selected among several",
    "selection_error": "selection must fail (unknown / ambiguous / none)",
    "tags_checked": "!Env / !TextFile / !BinaryFile values",
    "yaml_alias_cases": "a mapping shared through a YAML anchor/alias, overridden at one of its two places by a later layer",
}
ASSUMPTIONS = [
    "a top-level `component` together with `services` is not generated; keys never contain a double backslash (DESIGN.md section 4)",
    "values of --set are compared with yaml.safe_load of the same text (PyYAML is trusted to parse scalars)",
    "error texts are not checked (four error-path tests of the repository fail in this environment for click reasons): only status and 'nothing started'",
]

SERVICE_NAMES = ["default", "server", "client", "worker"]


class Tag:
    def __init__(self, kind: str, arg: str) -> None:
        self.kind, self.arg = kind, arg


def _yaml() -> Any:
    import yaml

    class Dumper(yaml.SafeDumper):
        pass

    Dumper.add_representer(Tag, lambda d, t: d.represent_scalar("!" + t.kind, t.arg))
    return yaml, Dumper


SPACED = " a value with blanks around it\t"  # (a password with a leading blank, a separator such as ", ": the value is the value)


def rand_scalar(rng: Any) -> Any:
    return rng.choice([0, 1, 7, "s", "text with spaces", None, True, [1, 2], 2.5])


def rand_kwargs(rng: Any, depth: int = 0) -> dict[str, Any]:
    out: dict[str, Any] = {}
    # ("asphalt" and "asphalt.core" side by side, as the loggers of a logging configuration are: a dotted key is a key of its own,
    # never a path into the mapping that happens to be named like its first part)
    keys = ["a", "b", "nested", "lst", "asphalt.core", "asphalt", "asphalt.core"]
    if depth:
        keys = keys + ["1", "1"]  # below the top level also keys made of digits (shard numbers, ports): strings all the same
    for k in rng.sample(keys, rng.randint(0, 4)):
        if k == "1":
            out[k] = rng.choice([{"weight": rng.randint(1, 9)}, rand_scalar(rng)])
        elif k == "nested" and depth < 2:
            out[k] = rand_kwargs(rng, depth + 1)
        elif k == "asphalt":
            out[k] = {"level": rng.choice(["INFO", "DEBUG"]), **({"core": rand_scalar(rng)} if rng.random() < 0.3 else {})}
        else:
            out[k] = rand_scalar(rng)
    return out


def gen_case(idx: int, seed: int, tier: str) -> Any:
    rng = case_rng(PROPERTY, seed, idx)
    layout = rng.choice(["component", "services", "services", "services"] if rng.random() < 0.95 else ["none"])
    names = rng.sample(SERVICE_NAMES, rng.randint(1, 3)) if layout == "services" else []
    if layout == "services" and rng.random() < 0.35 and "default" not in names:
        names.append("default")
    tier_b = idx % 60 == 0
    ctype = "verif_fixture_cli:Recorder"
    files: list[dict[str, Any]] = []
    nfiles = rng.randint(1, 4)
    for fi in range(nfiles):
        doc: dict[str, Any] = {}
        if layout == "component":
            if fi == 0 or rng.random() < 0.6:
                comp = rand_kwargs(rng)
                if fi == 0:
                    comp["type"] = ctype
                doc["component"] = comp
        elif layout == "services":
            svcs: dict[str, Any] = {}
            for n in names:
                if fi == 0 or rng.random() < 0.5:
                    comp = rand_kwargs(rng)
                    if fi == 0 and (rng.random() < 0.98):
                        comp["type"] = ctype
                    sec: dict[str, Any] = {"component": comp} if (fi > 0 or rng.random() < 0.98) else {}
                    if rng.random() < 0.4:
                        sec["max_threads"] = rng.choice([3, 7, 11])
                    if rng.random() < 0.3 and not tier_b:
                        sec["opts"] = rand_kwargs(rng)
                    if rng.random() < 0.15 and not tier_b:
                        sec["backend_options"] = rand_kwargs(rng)
                    svcs[n] = sec
            if svcs:
                doc["services"] = svcs
        if rng.random() < 0.5:
            doc["max_threads"] = rng.choice([2, 5, 9])
        if rng.random() < 0.3:
            doc["start_timeout"] = rng.choice([5, 30])
        if rng.random() < 0.3:
            doc["backend"] = rng.choice(["asyncio", "trio"])
        if rng.random() < 0.4 and not tier_b:
            doc["opts"] = rand_kwargs(rng)
        if rng.random() < 0.25 and not tier_b:
            doc["backend_options"] = rand_kwargs(rng)  # (in-process tier only: a real run would hand them to the event loop)
        if rng.random() < 0.3:
            doc["logging"] = None
        files.append(doc)
    # tagged values inside the (first file's) component configuration
    tags = []
    if rng.random() < 0.4:
        where = files[0].get("component") if layout == "component" else (files[0].get("services", {}).get(names[0], {}).get("component") if names else None)
        if isinstance(where, dict):
            for kind in rng.sample(["Env", "Env_unset", "Env_empty", "Env_spaced", "TextFile", "BinaryFile"], rng.randint(1, 3)):
                tags.append(kind)
                where["tag_" + kind] = {"__tag__": kind}
    # one mapping referenced from two places of the first file (PyYAML writes it as an anchor and an alias, and loads it
    # back as ONE dict object); a later file / --set then overrides something under only one of the two places
    alias_base = None
    if rng.random() < 0.3:
        where0 = files[0].get("component") if layout == "component" else (files[0].get("services", {}).get(names[0], {}).get("component") if names else None)
        if isinstance(where0, dict):
            where0["shared_a"] = {"x": 1, "deep": {"k": 1, "other": [1, 2]}}
            where0["shared_b"] = {"__same_as__": "shared_a"}
            alias_base = "component" if layout == "component" else f"services.{names[0]}.component"
            if nfiles >= 2 and rng.random() < 0.7:
                over = {"shared_b": {"deep": {"k": rng.choice([2, "changed"])}, "added": True}}
                tgt = files[-1]
                if layout == "component":
                    tgt.setdefault("component", {}).update(over)
                else:
                    tgt.setdefault("services", {}).setdefault(names[0], {}).setdefault("component", {}).update(over)
    sets: list[list[str]] = []
    if alias_base and rng.random() < 0.5:
        sets.append(["kv", f"{alias_base}.shared_b.deep.k", rng.choice(["7", "via_set"])])
    for _ in range(rng.choice([0, 0, 1, 2, 3, 5])):
        r = rng.random()
        base = "component" if layout == "component" else (f"services.{rng.choice(names)}.component" if names and rng.random() < 0.8 else "")
        if r < 0.02:
            sets.append(["noeq", "component.a"])
            continue
        if r < 0.05 and not tier_b:  # (end-to-end, a mapping as max_threads would crash the real run_application)
            sets.append(["kv", "max_threads.x", "1"])  # may run through a scalar
            continue
        leaf = rng.choice(["a", "b", "nested.a", "nested.deep.x", "asphalt\\.core", "nested.asphalt\\.core", "newkey", "nested.1", "nested.1.weight", "nested.0"])
        key = f"{base}.{leaf}" if base else rng.choice(["max_threads", "start_timeout", "opts.x", "opts.asphalt\\.core.level"] if not tier_b else ["max_threads", "start_timeout"])
        val = rng.choice(["5", "[1, 2]", "{k: 1}", "", "true", "plain", rng.choice(["[80, 443", "{debug: true", "'80", "*ports", "plain"]), "'quoted: text'", "3.5", "a=b", "@TAG:Env", "@TAG:Env_empty", "@TAG:Env_spaced", "@TAG:TextFile", "@TAG:BinaryFile"])
        if key in ("max_threads", "start_timeout"):
            val = rng.choice(["4", "6"])
        sets.append(["kv", key, val])
    if rng.random() < 0.15:
        # the same key overridden twice with an override of its parent in between: overrides apply in command-line order
        base2 = "component" if layout == "component" else (f"services.{rng.choice(names)}.component" if names else "")
        if base2:
            sets.extend([["kv", f"{base2}.nested.a", "first"], ["kv", f"{base2}.nested", "{b: 2}"], ["kv", f"{base2}.nested.a", "last"]])
    if rng.random() < 0.02:
        files[-1]["services"] = rng.choice([["server", "client"], "server", 5])  # not a mapping: the command must fail

    def pick() -> Any:
        r = rng.random()
        if r < 0.55:
            return None
        if r < 0.93:
            return rng.choice(names) if names else "default"
        return "unknown_service"

    return {"layout": layout, "files": files, "sets": sets, "service": pick(), "env_service": pick(), "tier_b": tier_b, "tags": tags, "env_salt": rng.randrange(10 ** 6),
            # the configuration files sit in a sub-directory and are named relative to the working directory, and so are the files
            # that !TextFile / !BinaryFile name (relative paths are relative to the working directory, as for any other program)
            "relative_paths": rng.random() < 0.25,
            "short_flag": rng.random() < 0.5, "aliased": bool(alias_base)}


# ----------------------------------------------------------------------------- execution

_WORKDIR: str | None = None


_ENV_VALUE = "value from the environment"


def workdir() -> str:
    global _WORKDIR
    if _WORKDIR is None:
        _WORKDIR = tempfile.mkdtemp(prefix="verif_c16_")
        import atexit

        atexit.register(shutil.rmtree, _WORKDIR, True)
        with open(os.path.join(_WORKDIR, "text file.txt"), "w") as f:
            f.write("text from a file\nsecond line\n")
        with open(os.path.join(_WORKDIR, "blob.bin"), "wb") as f:
            f.write(b"\x00\x01binary\xff")
        os.mkdir(os.path.join(_WORKDIR, "conf"))
        with open(os.path.join(_WORKDIR, "conf", "text file.txt"), "w") as f:
            f.write("a file of the same name beside the configuration files\n")
    return _WORKDIR


def materialize(case: dict[str, Any]) -> tuple[list[str], list[dict[str, Any]], dict[str, str | None]]:
    """write the YAML files; returns (paths, model documents with tags replaced by their values, environment)"""
    yaml, Dumper = _yaml()
    wd = workdir()
    # (the variable's value differs from case to case, the option texts that refer to it do not: every run reads it anew)
    global _ENV_VALUE
    _ENV_VALUE = f"value from the environment #{case.get('env_salt', 0)}"
    env: dict[str, str | None] = {"VERIF_E1": _ENV_VALUE, "VERIF_UNSET": None, "VERIF_EMPTY": "", "VERIF_SPACED": SPACED, "ASPHALT_SERVICE": case["env_service"]}
    values = {"Env": _ENV_VALUE, "Env_unset": None, "Env_empty": "",  # (a variable that is set, to the empty string)
              "Env_spaced": SPACED,
              "TextFile": "text from a file\nsecond line\n", "BinaryFile": b"\x00\x01binary\xff"}
    rel = bool(case.get("relative_paths"))
    tagobj = {"Env": Tag("Env", "VERIF_E1"), "Env_unset": Tag("Env", "VERIF_UNSET"), "Env_empty": Tag("Env", "VERIF_EMPTY"), "Env_spaced": Tag("Env", "VERIF_SPACED"),
              "TextFile": Tag("TextFile", "text file.txt" if rel else os.path.join(wd, "text file.txt")),
              "BinaryFile": Tag("BinaryFile", "blob.bin" if rel else os.path.join(wd, "blob.bin"))}

    def conv(x: Any, for_model: bool) -> Any:
        if isinstance(x, dict):
            if "__tag__" in x:
                return values[x["__tag__"]] if for_model else tagobj[x["__tag__"]]
            out = {k: conv(v, for_model) for k, v in x.items() if not (isinstance(v, dict) and "__same_as__" in v)}
            for k, v in x.items():
                if isinstance(v, dict) and "__same_as__" in v:
                    # the YAML document gets the very same object (-> anchor/alias); the model an independent equal copy
                    out[k] = conv(x[v["__same_as__"]], True) if for_model else out[v["__same_as__"]]
            return out
        if isinstance(x, list):
            return [conv(v, for_model) for v in x]
        return x

    paths, docs = [], []
    for i, doc in enumerate(case["files"]):
        p = os.path.join(wd, "conf", f"cfg{i}.yaml") if rel else os.path.join(wd, f"cfg{i}.yaml")
        with open(p, "w") as f:
            f.write(yaml.dump(conv(doc, False), Dumper=Dumper, default_flow_style=False))
        paths.append(os.path.join("conf", f"cfg{i}.yaml") if rel else p)
        docs.append(conv(doc, True))
    return paths, docs, env


def tagged_override(value: str) -> tuple[str, Any] | None:
    """an override whose value carries one of the tags: (text on the command line, value the tag stands for)"""
    if not value.startswith("@TAG:"):
        return None
    wd = workdir()
    return {"Env": ("!Env VERIF_E1", _ENV_VALUE),
            "Env_empty": ("!Env VERIF_EMPTY", ""),
            "Env_spaced": ("!Env VERIF_SPACED", SPACED),
            "TextFile": ("!TextFile " + os.path.join(wd, "text file.txt"), "text from a file\nsecond line\n"),
            "BinaryFile": ("!BinaryFile " + os.path.join(wd, "blob.bin"), b"\x00\x01binary\xff")}[value[5:]]


def argv_for(case: dict[str, Any], paths: list[str]) -> list[str]:
    args = ["run", *paths]
    for s in case["sets"]:
        if s[0] != "noeq" and tagged_override(s[2]) is not None:
            args += ["--set", f"{s[1]}={tagged_override(s[2])[0]}"]
            continue
        args += ["--set", s[1] if s[0] == "noeq" else f"{s[1]}={s[2]}"]
    if case["service"]:
        args += ["-s" if case["short_flag"] else "--service", case["service"]]
    return args


def model_for(case: dict[str, Any], docs: list[dict[str, Any]]) -> Any:
    import yaml

    sets: list[tuple[str, Any]] = []
    for s in case["sets"]:
        if s[0] == "noeq":
            sets.append((s[1], ("NOEQ",)))
        elif tagged_override(s[2]) is not None:
            sets.append((s[1], tagged_override(s[2])[1]))
        else:
            try:
                sets.append((s[1], yaml.safe_load(s[2])))
            except yaml.YAMLError:
                sets.append((s[1], ("NOEQ",)))  # a value that is not YAML: like an override without '=', the command must fail
    try:
        return expected_call(docs, sets, case["service"], case["env_service"])
    except CliError as e:
        return e


def run_case(case: Any) -> dict[str, Any]:
    from click.testing import CliRunner

    from asphalt.core import _cli

    V: list[dict[str, Any]] = []
    c: dict[str, int] = {}

    def inc(k: str, n: int = 1) -> None:
        c[k] = c.get(k, 0) + n

    paths, docs, env = materialize(case)
    args = argv_for(case, paths)
    exp = model_for(case, docs)

    def bad(key: str, msg: str, **w: Any) -> None:
        if not any(v["key"] == key for v in V):
            V.append({"key": key, "msg": msg, "witness": {"argv": args, "env": {k: v for k, v in env.items() if k == "ASPHALT_SERVICE"},
                                                          "files": case["files"], **w}})

    # ---------------- tier A
    calls: list[Any] = []

    def recorder(*a: Any, **kw: Any) -> None:
        calls.append((a, kw))

    orig = _cli.run_application
    _cli.run_application = recorder  # type: ignore[assignment]
    try:
        here = os.getcwd()
        if case.get("relative_paths"):
            os.chdir(workdir())
            inc("runs_with_paths_relative_to_the_working_directory")
        try:
            result = CliRunner().invoke(_cli.main, args, env=env)
        finally:
            os.chdir(here)
    finally:
        _cli.run_application = orig  # type: ignore[assignment]
    if isinstance(exp, CliError):
        inc("tier_a_failures_checked")
        if calls:
            bad("cli-should-fail", f"the model says the command must fail ({exp}) but run_application was called with {calls[0]!r}"[:600])
        elif result.exit_code == 0:
            bad("cli-should-fail", f"the model says the command must fail ({exp}) but it exited with status 0 having started nothing")
    else:
        if not calls:
            bad("cli-should-start", f"the command failed (exit {result.exit_code}, {result.exception!r}) but the model expects run_application({exp['type']!r}, "
                                    f"{exp['component']!r}, **{exp['kwargs']!r})"[:900], output=(result.output or "")[-300:])
        else:
            inc("tier_a_calls_compared")
            a, kw = calls[0]
            got_type = a[0] if a else kw.get("component_class")
            got_comp = a[1] if len(a) > 1 else kw.get("config")
            got_kw = {k: v for k, v in kw.items() if k not in ("component_class", "config")}
            if len(calls) > 1:
                bad("cli-started-twice", "run_application was called more than once")
            if got_type != exp["type"]:
                bad("cli-type", f"root component type {got_type!r}, expected {exp['type']!r}")
            if canon(got_comp) != canon(exp["component"]):
                bad("cli-component-config", f"root component configuration {got_comp!r}, the model says {exp['component']!r}")
            if canon(got_kw) != canon(exp["kwargs"]):
                bad("cli-options", f"run_application options {got_kw!r}, the model says {exp['kwargs']!r}")
    # ---------------- tier B
    if case.get("tier_b"):
        inc("tier_b_runs")
        out = os.path.join(workdir(), "tier_b_out.json")
        if os.path.exists(out):
            os.unlink(out)
        if case.get("env_salt", 0) % 2:
            # the user guide's spelling of the root component's type: a `!!python/name:` tag (resolved by the YAML loader, in a
            # fresh process that has not imported the module yet)
            rewritten = 0
            for pth in paths:
                full = pth if os.path.isabs(pth) else os.path.join(workdir(), pth)
                text = open(full).read()
                new_text = text.replace("type: verif_fixture_cli:Recorder", "type: !!python/name:verif_fixture_cli.Recorder").replace(
                    "type: 'verif_fixture_cli:Recorder'", "type: !!python/name:verif_fixture_cli.Recorder")
                if new_text != text:
                    open(full, "w").write(new_text)
                    rewritten += 1
            if rewritten:
                inc("tier_b_runs_with_the_type_given_as_a_python_name_tag")
        penv = {k: v for k, v in os.environ.items() if k not in ("ASPHALT_SERVICE", "VERIF_E1", "VERIF_UNSET", "VERIF_EMPTY", "VERIF_SPACED")}
        for k, v in env.items():
            if v is not None:
                penv[k] = v
        penv["VERIF_CLI_OUT"] = out
        penv["PYTHONPATH"] = os.pathsep.join([os.path.join(vkit.REPO, "src"), os.path.join(vkit.ROOT, "fixtures")])
        p = subprocess.run([vkit.PYTHON, "-m", "asphalt", *args], env=penv, capture_output=True, text=True, timeout=120, cwd=workdir())
        started = os.path.exists(out)
        if isinstance(exp, CliError):
            if started or p.returncode == 0:
                bad("cli-e2e-should-fail", f"end-to-end: the model says the command must fail ({exp}) but exit status {p.returncode}, started={started}")
        elif not started:
            bad("cli-e2e-should-start", f"end-to-end: exit status {p.returncode}, nothing started; stderr tail: {p.stderr[-400:]}")
        else:
            data = json.load(open(out))
            want = json.loads(json.dumps(exp["component"], default=repr))
            if data["kwargs"] != want:
                bad("cli-e2e-component-config", f"end-to-end: the root component received {data['kwargs']!r}, the model says {want!r}")
            if data["backend"] != exp["kwargs"]["backend"]:
                bad("cli-e2e-options", f"end-to-end: runs on {data['backend']}, the model says {exp['kwargs']['backend']}")
            if "max_threads" in exp["kwargs"] and exp["kwargs"]["max_threads"] is not None and data["max_threads"] != exp["kwargs"]["max_threads"]:
                bad("cli-e2e-options", f"end-to-end: thread limit {data['max_threads']}, the model says {exp['kwargs']['max_threads']}")
            if p.returncode != 0:
                bad("cli-e2e-exit", f"end-to-end: the application ran but the exit status is {p.returncode}")
    # ---------------- coverage counters
    for s in case["sets"]:
        if s[0] == "kv":
            if "." in s[1].replace("\\.", ""):
                inc("overrides_nested")
            if "\\." in s[1]:
                inc("overrides_escaped_dot")
            if s[2] in ("5", "[1, 2]", "{k: 1}", "", "true", "3.5", "4", "6"):
                inc("overrides_yaml_typed")
            top = s[1].split(".")[0]
            if any(top in d for d in case["files"]):
                inc("set_overrides_file")
    keys_seen: set[str] = set()
    for d in case["files"]:
        flat = {f"{k}.{kk}" for k, v in d.items() if isinstance(v, dict) for kk in v} | set(d)
        if flat & keys_seen:
            inc("later_file_overrides")
        keys_seen |= flat
    if case["layout"] == "services" and not isinstance(exp, CliError):
        tops = {k for d in case["files"] for k in d if k not in ("services", "component")}
        if tops:
            inc("service_merged_over_top_level")
    sv, ev = case["service"], case["env_service"]
    if isinstance(exp, CliError):
        if str(exp) in ("unknown service", "ambiguous service", "no services"):
            inc("selection_error")
    else:
        if sv:
            inc("selection_by_option")
            if ev and ev != sv:
                inc("selection_option_beats_env")
        elif ev:
            inc("selection_by_env")
        elif case["layout"] == "services":
            n = len({n for d in case["files"] for n in (d.get("services") or {})})
            inc("selection_single" if n == 1 else "selection_default")
    if case["tags"]:
        inc("tags_checked", len(case["tags"]))
    if case.get("aliased"):
        inc("yaml_alias_cases")
    nontrivial = (len(case["files"]) >= 2 or len(case["sets"]) >= 1) and case["layout"] == "services"
    sample = {"argv": [a.replace(workdir(), "<tmp>") for a in args], "env_service": ev, "files": case["files"],
              "expected": str(exp) if isinstance(exp, CliError) else {"type": exp["type"], "component": repr(exp["component"]), "options": repr(exp["kwargs"])}} \
        if nontrivial and len(case["sets"]) >= 2 and len(case["files"]) <= 2 else None
    return {"violations": V, "sig": canon((case["files"], case["sets"], sv, ev)), "nontrivial": nontrivial, "counters": c, "sample": sample}


def plan(tier: str) -> dict[str, Any]:
    n = 3000 if tier == "quick" else 300000
    return {"cases": n, "budget_s": 120 if tier == "quick" else 1800, "min_per_shard": 60}


LEVEL_TEXT = (
    "Differential run-time oracle on the real command: generated command lines and YAML files are executed in-process (click CliRunner, "
    "run_application replaced by a recorder at the public boundary) and, for a subset, end-to-end in a subprocess with a fixture root component; "
    "what reaches run_application / the root component is compared with an independent reference model of the documented precedence (files in "
    "order, then --set, then the selected service over the top level) and selection ladder; failures must be non-zero exits that start nothing. "
    "Sampled configurations."
)
LEVEL_NOTE = "Trusted: models/cli.py, PyYAML for scalar parsing, click's CliRunner. Error texts are not checked."
TECHNIQUE = "differential testing against a reference model, in-process (recorder) and end-to-end (subprocess)"
DESIGN_REF = "DESIGN.md section 3, C16"
