"""C10 - events reach exactly the active subscribers, exactly once, in dispatch order.

Deciding method: generated histories of subscribe / dispatch / consume / unsubscribe (engine E5) are
executed against the real Signal / stream_events / wait_event on both backends in virtual time; every
event has a unique id and every dispatch is bracketed by call/return records, so an offline trace
specification decides, per subscriber, that what it pulled is an order-preserving duplicate-free
subsequence of what was dispatched on its signals inside its subscription window, that exactly the
filtered ones are yielded, that an event is lost only when the subscriber's backlog had reached its
queue size (and is lost then), that the number of SignalQueueFull warnings of each dispatch equals
the number of subscribers that lost it, and that wait_event returns the first match after its call.
"""
from __future__ import annotations

from typing import Any

import vkit  # noqa: F401
from engines import e5_events as e5
from vkit.harness import case_rng

PROPERTY = "C10"
LEVEL = "exploration"
ENGINE = "E5 event histories"
ANCHORS = ["asphalt.core._event:Signal.dispatch", "asphalt.core._event:Signal._subscribe", "asphalt.core._event:stream_events",
           "asphalt.core._event:wait_event"]
RULE = (
    "random histories: 1-3 instances x 1-3 signals, 1-3 dispatcher tasks (bursts of 1-4 dispatches, yields and virtual sleeps between), 1-4 "
    "subscribers (1-3 signals each, filter none/all/mod-2/mod-3, max_queue_size in {0,1,2,3,5,50}, consumer styles eager / leaves after n / "
    "slow / raises / cancelled mid-iteration), 0-2 wait_event callers; both backends, trio scheduling seeded and half fully shuffled. "
    "Owners may be value-equal, re-created at the same address, or a shallow copy of an owner whose signals were already used. "
    "Non-trivial: >= 2 subscriber windows containing events; distinct = interleaving signature (sequence of (actor, event-kind))."
)
DECIDING = {
    "histories_with_2plus_subscribers": "several subscribers at once",
    "histories_with_leaving_subscriber": "a subscriber leaves while dispatching continues",
    "histories_with_abandoned_subscriber": "a subscriber that is gone: still subscribed but never reading again",
    "histories_with_equal_owners": "several owner instances that compare and hash equal",
    "failed_subscription_attempts": "subscriptions that must fail with UnboundSignal (and leave nothing behind)",
    "relayed_events": "an already dispatched event object dispatched again on another channel",
    "drops_observed": "events lost by a subscriber because its queue was full",
    "accepted_checked": "accepted events whose backlog was checked against the queue size",
    "dispatches_with_overflow_warning": "dispatches that issued SignalQueueFull",
    "drained_subscribers": "subscribers that consumed until quiescence (equality, not just prefix)",
    "wait_event_with_match": "wait_event calls with a matching event after the call",
    "events_delivered": "events yielded to consumers",
}
ASSUMPTIONS = [
    "one event may be in hand-off to a blocked receiver: a backlog equal to max_queue_size is accepted either way",
    "the same signal is never listed twice in one stream_events call; histories with wait_event callers dispatch < 50 events (DESIGN.md section 4)",
    "filters do not raise",
]


def plan(tier: str) -> dict[str, Any]:
    n = 3000 if tier == "quick" else 250000
    return {"cases": n, "budget_s": 90 if tier == "quick" else 1500, "min_per_shard": 50}


def gen_case(idx: int, seed: int, tier: str) -> Any:
    return e5.gen_program(case_rng(PROPERTY, seed, idx))


def run_case(case: Any) -> dict[str, Any]:
    run = e5.execute(case)
    V, c = e5.check(run)
    c["histories"] = 1
    nontrivial = c.get("subscriber_windows", 0) >= 2 and c.get("events_in_windows", 0) >= 2
    sample = None
    if nontrivial and c.get("drops_observed") and len(run.trace) < 90:
        sample = {"program": case, "trace": run.trace.compact(90)}
    return {"violations": V, "sig": run.trace.signature(), "nontrivial": nontrivial, "counters": c, "sample": sample}


LEVEL_TEXT = (
    "Offline trace specification over recorded histories of the real signal machinery: unique event ids and call/return brackets make the "
    "history unambiguous, so per-subscriber exactness (no loss without overflow, no duplicate, no foreign event, dispatch order, filter), "
    "overflow accounting (backlog vs. queue size, warnings = drops), dispatch robustness against finished / failed / cancelled consumers and "
    "wait_event's first-match rule are decided for every history produced. Sampled histories and interleavings on both backends."
)
LEVEL_NOTE = "Trusted: the oracle in engines/e5_events.py; backlog is measured at the harness filter (receiving side), with a tolerance of one item in hand-off."
TECHNIQUE = "offline history checker (exactly-once / order / conservation with overflow accounting) over unique-id event logs"
DESIGN_REF = "DESIGN.md section 3, C10"
