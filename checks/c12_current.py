"""C12 - current_context() follows strict per-task stack discipline.

Deciding method: 2-8 concurrent tasks each run a generated push/pop program (nested `async with
Context()` blocks to depth <= 6 with yields and virtual sleeps between the steps, blocks left by
return / exception / cancellation / a raising teardown callback, contexts constructed implicitly or
with an explicit foreign parent, children spawned through anyio task groups, start_service_task and
task factories).  Every task owns a model stack; at every step current_context() must be the top of
*its* stack (NoCurrentContext when empty), a new Context's parent must be the context current at its
construction, and a spawned task's first observation must be the spawner's current context (task
group) or a fresh context whose parent chain leads to it (service task / factory).  The
construction-inside-prepare()/start() rule is checked on component trees of engine E2.
"""
from __future__ import annotations

from typing import Any

import anyio
from anyio import CancelScope, create_task_group
from anyio.lowlevel import checkpoint

import vkit  # noqa: F401
from engines import e2_components as e2
from vkit.harness import case_rng
from vkit.trace import describe_exc
from vkit.vtime import VirtualDeadlock, run_virtual

PROPERTY = "C12"
LEVEL = "exploration"
ENGINE = "per-task stack programs"
ANCHORS = ["asphalt.core._context:Context.__aenter__", "asphalt.core._context:Context.__aexit__", "asphalt.core._context:Context.__init__",
           "asphalt.core._context:current_context", "asphalt.core._concurrent:run_background_task"]
LEAVES = ["return", "raise", "cancel", "teardown_raises", "cancelled_before_enter"]
RULE = (
    "random programs: 2-8 top-level tasks (started with no current context or inside a shared root context), each a tree of steps {check, yield 1-3, "
    "sleep, construct Context() and inspect its parent, enter a context (implicit parent / explicit foreign parent) with a nested body and one of "
    f"the leave routes {LEAVES}, spawn a child through a task group / start_service_task / a task factory}}, nesting depth <= 6; both backends, "
    "seeded trio scheduling. One case in eight is a component tree (engine E2) whose prepare()/start() construct contexts. Non-trivial: >= 2 tasks "
    "simultaneously inside nested blocks; distinct = interleaving signature."
)
DECIDING = {
    "checks_performed": "current_context() observations compared with the task's model stack",
    "checks_with_other_task_nested": "observations made while another task was inside its own nested block",
    "leave_return": "blocks left by return",
    "leave_raise": "blocks left by an exception",
    "leave_cancel": "blocks left by cancellation",
    "leave_teardown_raises": "blocks left with a raising teardown callback",
    "spawn_tg": "children spawned through a task group (inherit the spawner's current context)",
    "spawn_service": "children started with start_service_task",
    "spawn_factory": "children started through a task factory",
    "spawn_tg_outliving_block": "children spawned into a task group that outlives the block they were spawned in",
    "contexts_entered_later_than_built": "contexts created under one current context and entered later under another",
    "constructions_checked": "Context() constructions whose parent was compared with the current context",
    "teardown_callback_observations": "current_context() observed inside teardown callbacks",
    "empty_stack_checks": "observations expecting NoCurrentContext",
    "component_construction_cases": "component trees constructing contexts inside prepare()/start()",
}
ASSUMPTIONS = ["children that enter contexts of their own finish before their spawner leaves the context they were spawned in; "
               "children that outlive it only observe current_context()"]


class Marker(Exception):
    # the exception that ends a block / fails a teardown cannot be printed: str() of it raises (a `__str__` that returns a
    # non-string, a message built from an attribute that was never set); it is an exception like any other.  (repr() works:
    # trio formats `{exc!r}` itself when a nursery block ends with an exception.)
    def __str__(self) -> str:
        raise TypeError("__str__ returned non-string (type int)")


def gen_prog(rng: Any, depth: int, budget: list[int], in_ctx: bool) -> list[Any]:
    steps: list[Any] = []
    for _ in range(rng.randint(1, 4)):
        if budget[0] <= 0:
            break
        budget[0] -= 1
        r = rng.random()
        if r < 0.2:
            steps.append(["check"])
        elif r < 0.25:
            steps.append(["lookup_elsewhere", rng.choice(["ok", "raises", "cancelled"])])
        elif r < 0.4:
            steps.append(["yield", rng.randint(1, 3)])
        elif r < 0.45:
            steps.append(["sleep", rng.choice([0.5, 1])])
        elif r < 0.5:
            steps.append(["construct"])
        elif r < 0.57:
            steps.append(["prebuild"])  # a context created here and entered later, somewhere deeper in this task
        elif r < 0.85 and depth < 6:
            how = rng.choice(["implicit", "implicit", "implicit", "explicit_shared", "prebuilt", "prebuilt"])
            steps.append(["enter", how, gen_prog(rng, depth + 1, budget, True), rng.choice(LEAVES)])
        elif depth < 5:
            kind = rng.choice(["tg", "tg", "service", "factory", "tg_outer"]) if in_ctx else "tg"
            if kind == "tg_outer":
                # a task spawned into a task group that outlives the current block: it keeps what it inherited,
                # whatever the spawner does afterwards (its body only observes: checks, yields, sleeps)
                body = [rng.choice([["check"], ["yield", rng.randint(1, 3)], ["sleep", rng.choice([0.5, 1, 2])], ["check"]]) for _ in range(rng.randint(2, 6))]
                steps.append(["spawn", kind, body])
            else:
                steps.append(["spawn", kind, gen_prog(rng, depth + 1, budget, in_ctx)])
        else:
            steps.append(["check"])
    return steps


def gen_case(idx: int, seed: int, tier: str) -> Any:
    rng = case_rng(PROPERTY, seed, idx)
    if idx % 8 == 7:
        tree = e2.gen_tree(rng, max_nodes=6, with_services=False)
        return {"kind": "components", "backend": rng.choice(["asyncio", "trio"]), "sched_seed": rng.randrange(1 << 30), "shuffle": rng.random() < 0.5,
                "timeout": None, "probe_ctx": True, "tree": tree}
    tasks = []
    for _ in range(rng.randint(2, 8)):
        tasks.append({"inside_shared_root": rng.random() < 0.5, "prog": gen_prog(rng, 0, [rng.randint(6, 25)], False)})
    return {"kind": "stacks", "backend": rng.choice(["asyncio", "trio"]), "sched_seed": rng.randrange(1 << 30), "shuffle": rng.random() < 0.5, "tasks": tasks,
            "falsy_contexts": rng.random() < 0.25}


class Interp:
    def __init__(self, case: dict[str, Any]) -> None:
        self.case = case
        self.V: list[dict[str, Any]] = []
        self.c: dict[str, int] = {}
        self.log: list[str] = []
        self.nested_now: dict[int, int] = {}  # top-level task id -> current nesting depth
        self.left_cleanly: dict[Any, list[Any]] = {}  # task id -> contexts that task entered and left by a plain return
        self.shared: Any = None
        self.outer_tg: dict[int, Any] = {}
        self.prebuilt: dict[int, list[Any]] = {}
        self.seq = 0

    def inc(self, k: str, n: int = 1) -> None:
        self.c[k] = self.c.get(k, 0) + n

    def bad(self, key: str, msg: str) -> None:
        if len(self.V) < 5 and not any(v["key"] == key for v in self.V):
            self.V.append({"key": key, "msg": msg, "witness": {"case": self.case, "log": self.log[-60:]}})

    def note(self, tid: Any, what: str) -> None:
        self.seq += 1
        self.log.append(f"{self.seq} t{tid}: {what}")

    def name(self, ctx: Any, stack: list[Any]) -> str:
        for i, c in enumerate(stack):
            if c is ctx:
                return f"own[{i}]"
        if ctx is self.shared:
            return "shared-root"
        return f"<foreign context {id(ctx):x}>"

    def check(self, tid: Any, stack: list[Any], where: str) -> None:
        from asphalt.core import NoCurrentContext, current_context

        self.inc("checks_performed")
        top = stack[-1] if stack else None
        root_tid = tid if isinstance(tid, int) else int(str(tid).split(".")[0])
        if any(d > 0 for t, d in self.nested_now.items() if t != root_tid):
            self.inc("checks_with_other_task_nested")
        try:
            cur = current_context()
        except NoCurrentContext:
            cur = None
        except Exception as e:
            self.bad("current-raised", f"task {tid} {where}: current_context() raised {describe_exc(e)}")
            return
        if top is None:
            self.inc("empty_stack_checks")
        if cur is not top:
            exp = "NoCurrentContext" if top is None else self.name(top, stack)
            got = "NoCurrentContext" if cur is None else self.name(cur, stack)
            self.bad(f"current-wrong[{where.split(' ')[0]}]", f"task {tid} {where}: current_context() is {got}, this task's stack says {exp}")

    async def lookup_elsewhere(self, tid: Any, other: Any, how: str) -> None:
        self.seq += 1
        T = type(f"Made{self.seq}", (), {})  # noqa: N806

        class FactoryFailed(Exception):
            pass

        async def factory() -> Any:
            await checkpoint()
            if how == "raises":
                raise FactoryFailed("the factory failed")
            if how == "cancelled":
                await anyio.sleep(10)
            return T()

        try:
            other.add_resource_factory(factory, f"n{self.seq}", types=[T])
        except RuntimeError:
            return  # (the enclosing context is already being torn down: no factories any more)
        self.inc(f"lookups_on_another_context_{how}")
        try:
            with anyio.move_on_after(1.0 if how == "cancelled" else 100):
                await other.get_resource(T, f"n{self.seq}")
        except FactoryFailed:
            pass
        except Exception as e:
            if not (type(e).__name__ == "RuntimeError" and other.closed):
                self.bad("current-raised", f"task {tid}: get_resource() on an enclosing context raised {describe_exc(e)}")

    def ctx_class(self) -> Any:
        """Context, or (falsy_contexts) a subclass whose instances are falsy - a container-like context that is empty"""
        from asphalt.core import Context

        if not self.case.get("falsy_contexts"):
            return Context
        if not hasattr(self, "_bag"):
            self._bag = type("BagContext", (Context,), {"__len__": lambda self: 0})
        return self._bag

    async def run(self, tid: Any, prog: list[Any], stack: list[Any], root_tid: int) -> None:
        from asphalt.core import current_context

        Context = self.ctx_class()  # noqa: N806

        for step in prog:
            kind = step[0]
            if kind == "check":
                self.check(tid, stack, "check")
                gone = self.left_cleanly.get(tid)
                if gone and self.seq % 2 == 0:
                    # a context that this task has left long ago is "left" once more (a clean-up routine that calls __aexit__
                    # regardless): whatever that call does or raises, what is current here does not change
                    old = gone.pop(0)
                    try:
                        await old.__aexit__(None, None, None)
                    except Exception:
                        pass
                    self.inc("contexts_left_a_second_time_later_on")
                    self.check(tid, stack, "after-a-second-exit-of-an-old-context")
            elif kind == "yield":
                for _ in range(step[1]):
                    await checkpoint()
                self.check(tid, stack, "after-yield")
            elif kind == "sleep":
                await anyio.sleep(step[1])
                self.check(tid, stack, "after-sleep")
            elif kind == "lookup_elsewhere":
                # a lookup made on a context that is *not* this task's current one (an enclosing context, reached through a
                # reference), served by an asynchronous factory that succeeds, fails or is abandoned half-way: whatever the
                # library does while the factory runs, this task's current context is afterwards what it was before
                if len(stack) >= 2:
                    await self.lookup_elsewhere(tid, stack[0], step[1])
                    self.check(tid, stack, "after-lookup-on-another-context")
            elif kind == "prebuild":
                self.prebuilt.setdefault(root_tid, []).append((Context(), stack[-1] if stack else None))
                self.inc("contexts_built_ahead")
            elif kind == "construct":
                self.seq += 1
                if self.seq % 3 == 2 and stack:
                    c = Context(current_context())  # naming the current context as the parent is the same as leaving the parent out
                    self.inc("constructions_naming_the_current_context")
                else:
                    c = Context(None) if self.seq % 2 else Context()  # an explicit None is the same as leaving the parent out
                self.inc("constructions_checked")
                top = stack[-1] if stack else None
                if c.parent is not top:
                    self.bad("current-parent", f"task {tid}: Context() constructed with current {self.name(top, stack) if top else None} has parent "
                                               f"{self.name(c.parent, stack) if c.parent else None}")
            elif kind == "enter":
                _, how, body, leave = step
                parent_expected = stack[-1] if stack else None
                pool = self.prebuilt.get(root_tid, [])
                usable = [i for i, (c0, top0) in enumerate(pool) if top0 is None or any(top0 is x for x in stack)]
                if how == "prebuilt" and usable:
                    # created earlier in this task under another current context (or none), entered only now: its parent is what was
                    # current at its creation; inside the block it is current; afterwards whatever is current now is current again
                    ctx, parent_expected = pool.pop(usable[0])
                    self.inc("contexts_entered_later_than_built")
                elif how == "explicit_shared" and self.shared is not None:
                    ctx = Context(self.shared)
                    parent_expected = self.shared
                else:
                    ctx = Context()
                if ctx.parent is not parent_expected:
                    self.bad("current-parent", f"task {tid}: new context's parent is {self.name(ctx.parent, stack) if ctx.parent else None}, expected "
                                               f"{self.name(parent_expected, stack) if parent_expected else None}")
                self.inc(f"leave_{leave}")
                self.note(tid, f"enter depth {len(stack) + 1} (leave by {leave})")

                async def block() -> None:
                    async with ctx:
                        stack.append(ctx)
                        self.nested_now[root_tid] = self.nested_now.get(root_tid, 0) + 1
                        try:
                            self.check(tid, stack, "inside-block")

                            def in_teardown(ctx: Any = ctx) -> None:
                                # teardown callbacks still belong to the block: the context being torn down is current
                                # (stack has been popped by the interpreter's finally only after __aexit__ returns)
                                self.inc("teardown_callback_observations")
                                try:
                                    cur = current_context()
                                except Exception:
                                    cur = None
                                # a context created by the callback takes the one being torn down - the current one - as its parent
                                from asphalt.core import Context as _Context

                                try:
                                    made_parent = _Context().parent
                                except Exception:
                                    made_parent = None
                                self.inc("contexts_created_inside_a_teardown_callback")
                                if made_parent is not ctx:
                                    self.bad("current-parent", f"task {tid}: a context created inside a teardown callback has parent "
                                                               f"{self.name(made_parent, stack) if made_parent else None}, not the context being torn down")
                                if cur is not ctx:
                                    self.bad("current-wrong[in-teardown-callback]", f"task {tid}: inside a teardown callback current_context() is "
                                                                                    f"{self.name(cur, stack) if cur else None}, not the context being torn down")

                            ctx.add_teardown_callback(in_teardown)
                            if leave == "teardown_raises":
                                def raiser() -> None:
                                    raise Marker("teardown")

                                ctx.add_teardown_callback(raiser)
                            if leave == "cancelled_before_enter":
                                # the surrounding scope was cancelled before the context was even entered (clean-up code in a
                                # cancelled handler): entering works, the first checkpoint in the block delivers the cancellation
                                await checkpoint()
                            await self.run(tid, body, stack, root_tid)
                            self.check(tid, stack, "end-of-block")
                            if leave == "raise":
                                raise Marker("block")
                            if leave == "cancel":
                                scope.cancel()
                                await checkpoint()
                        finally:
                            stack.pop()
                            self.nested_now[root_tid] -= 1

                with CancelScope() as scope:
                    if leave == "cancelled_before_enter":
                        scope.cancel()
                    try:
                        await block()
                    except Marker:
                        pass
                    except BaseExceptionGroup as eg:
                        from vkit.trace import is_cancellation

                        if not all(isinstance(x, Marker) or is_cancellation(x) for x in _leaves(eg)):
                            self.bad("current-block-raised", f"task {tid}: leaving a block raised {describe_exc(eg)}")
                self.note(tid, f"left depth {len(stack) + 1}")
                self.check(tid, stack, f"after-leave-by-{leave}")
                if leave == "return":
                    self.left_cleanly.setdefault(tid, []).append(ctx)
            elif kind == "spawn":
                _, how, body = step
                self.inc(f"spawn_{how}")
                spawner_top = stack[-1] if stack else None
                ctid = f"{tid}.{self.seq}"
                if how == "tg_outer" and self.outer_tg.get(root_tid) is not None:
                    inherited = list(stack)

                    async def outliving_child(ctid: Any = ctid, body: Any = body, inherited: Any = inherited) -> None:
                        self.check(ctid, inherited, "first-observation-in-spawned-task")
                        await self.run(ctid, body, inherited, root_tid)
                        self.check(ctid, inherited, "end-of-outliving-spawned-task")

                    self.outer_tg[root_tid].start_soon(outliving_child)
                    self.inc("spawn_tg_outliving_block")
                elif how in ("tg", "tg_outer") or spawner_top is None:
                    async def child() -> None:
                        # inherits the spawner's current context; its own pushes and pops are its own
                        cstack = list(stack)
                        self.check(ctid, cstack, "first-observation-in-spawned-task")
                        await self.run(ctid, body, cstack, root_tid)
                        self.check(ctid, cstack, "end-of-spawned-task")

                    async with create_task_group() as tg:
                        tg.start_soon(child)
                        for _ in range(2):
                            await checkpoint()
                        self.check(tid, stack, "while-child-runs")
                else:
                    done = anyio.Event()
                    owner = spawner_top

                    async def child2() -> None:
                        try:
                            cur = current_context()
                            chain_ok = cur.parent is owner if how == "service" else (cur.parent is not None and cur.parent.parent is owner)
                            if cur is owner or not chain_ok:
                                self.bad("current-spawned-context", f"task started through {how} from {self.name(owner, stack)}: its current context's parent "
                                                                   f"chain does not lead to the context it was started from")
                            cstack = [cur]
                            await self.run(ctid, body, cstack, root_tid)
                            self.check(ctid, cstack, "end-of-spawned-task")
                        finally:
                            done.set()

                    if how == "service":
                        await owner.start_service_task(child2, f"svc{ctid}")
                    elif sum(map(ord, str(ctid))) % 2:
                        # the task fails at its end and the factory's exception handler is consulted - in that task, after the task's own
                        # context has been left: what is current there is again what the task inherited from whoever spawned it
                        in_handler: list[Any] = []

                        def handler(exc: Exception) -> bool:
                            try:
                                in_handler.append(current_context())
                            except Exception as e:
                                in_handler.append(e)
                            return True

                        async def child3() -> None:
                            await child2()
                            raise FactoryFailed("the task failed at its end")

                        factory = await owner.start_background_task_factory(exception_handler=handler)
                        handle = await factory.start_task(child3)
                        self.check(tid, stack, "after-starting-task")
                        await done.wait()
                        await handle.wait_finished()
                        self.inc("exception_handlers_that_observed_the_current_context")
                        if len(in_handler) != 1 or in_handler[0] is not owner:
                            self.bad("current-wrong[exception-handler]", f"task {ctid}, started through a task factory from {self.name(owner, stack)}, failed; inside the "
                                                                         f"factory's exception handler the current context was "
                                                                         f"{[self.name(c, stack) if not isinstance(c, Exception) else repr(c) for c in in_handler]}")
                    else:
                        factory = await owner.start_background_task_factory()
                        await factory.start_task(child2)
                    self.check(tid, stack, "after-starting-task")
                    await done.wait()
                self.check(tid, stack, "after-spawn")

    async def main(self) -> None:
        Context = self.ctx_class()  # noqa: N806
        case = self.case
        if case.get("falsy_contexts"):
            self.inc("programs_with_falsy_contexts")
        async with create_task_group() as outer:
            ready = anyio.Event()
            release = anyio.Event()

            async def shared_root() -> None:
                async with Context() as root:
                    self.shared = root
                    ready.set()
                    async with create_task_group() as inner:
                        for i, t in enumerate(case["tasks"]):
                            if t["inside_shared_root"]:
                                inner.start_soon(self.top, i, t, [root])
                    await release.wait()

            outer.start_soon(shared_root)
            await ready.wait()
            async with create_task_group() as free:
                for i, t in enumerate(case["tasks"]):
                    if not t["inside_shared_root"]:
                        free.start_soon(self.top, i, t, [])
            release.set()

    async def top(self, i: int, t: dict[str, Any], stack: list[Any]) -> None:
        stack = list(stack)
        self.check(i, stack, "task-start")
        async with create_task_group() as outer:
            self.outer_tg[i] = outer
            try:
                await self.run(i, t["prog"], stack, i)
            except Exception as e:
                import traceback as _tb

                self.log.append("".join(_tb.format_exception(e))[-1500:])
                self.bad("current-program-crashed", f"task {i} crashed: {describe_exc(e)}")
            self.check(i, stack, "task-end")


def _leaves(e: BaseException) -> list[BaseException]:
    from vkit.trace import leaves

    return leaves(e)


def plan(tier: str) -> dict[str, Any]:
    n = 5000 if tier == "quick" else 500000
    return {"cases": n, "budget_s": 90 if tier == "quick" else 1500, "min_per_shard": 50}


def run_case(case: Any) -> dict[str, Any]:
    if case["kind"] == "components":
        run = e2.execute(case)
        V, c0 = e2.check_success(run)
        mine = [v for v in V if v["key"].startswith("current-")]
        c = {"component_construction_cases": 1}
        for k in ("contexts_created_after_startup_by_a_task_spawned_from_a_component", "contexts_created_in_a_component_tree_started_inside_a_component"):
            if c0.get(k):
                c[k] = c0[k]
        if any(not v["key"].startswith("current-") for v in V):
            c["cross_firing_component_checks"] = 1
        return {"violations": mine, "sig": ("components", run.trace.signature()), "nontrivial": True, "counters": c, "sample": None}
    it = Interp(case)
    try:
        run_virtual(case["backend"], it.main, sched_seed=case["sched_seed"], shuffle=case["shuffle"])
    except VirtualDeadlock as e:
        it.bad("current-deadlock", str(e))
    except BaseException as e:
        if isinstance(e, (KeyboardInterrupt, SystemExit)):
            raise
        it.bad("current-program-crashed", f"the program crashed: {describe_exc(e)}")
    nontrivial = it.c.get("checks_with_other_task_nested", 0) > 0
    sample = {"tasks": case["tasks"][:2], "log": it.log[:40]} if nontrivial and len(it.log) > 10 and len(case["tasks"]) <= 3 else None
    return {"violations": it.V, "sig": tuple(it.log), "nontrivial": nontrivial, "counters": it.c, "sample": sample}


LEVEL_TEXT = (
    "Online monitor with one model stack per task: generated concurrent push/pop programs are executed on real contexts and at every step "
    "current_context() is compared (by identity) with the top of the observing task's own stack; constructions compare Context.parent with the "
    "current context; spawned tasks' first observations are compared with the spawner's current context (or the documented parent chain). "
    "All four ways of leaving a block and three ways of spawning are generated. Sampled programs and interleavings on both backends."
)
LEVEL_NOTE = "Trusted: the interpreter in checks/c12_current.py. Children spawned inside a context finish before the spawner leaves it."
TECHNIQUE = "online per-task shadow-stack monitor over generated concurrent enter/leave/spawn programs"
DESIGN_REF = "DESIGN.md section 3, C12"
