"""C18 - resource_added announces every publication exactly once, on the right context.

Deciding method: engine E1; every ResourceEvent dispatched during each command is recorded at the
public Signal.dispatch boundary (source context by identity) and compared with the model's
expectation for that command (success: exactly one on that context with the registered types, name,
description, is_factory; failure or plain lookup: none; first generation: one on the requesting
context); independently a real listener task subscribed to resource_added of *every* context must
have received exactly the dispatched events (checked after every command).
"""
from __future__ import annotations

from typing import Any

from checks import _e1_common as common

PROPERTY = "C18"
LEVEL = "exploration"
ENGINE = "E1 context-tree actors"
ANCHORS = [
    "asphalt.core._context:Context.add_resource",
    "asphalt.core._context:Context.add_resource_factory",
    "asphalt.core._context:Context.get_resource_nowait",
    "asphalt.core._context:Context.get_resource",
]
RULE = (
    "the histories of C02-C04 (mixed weights, 10% invalid calls) with a listener on every context. "
    "Every second context has a clogged listener (queue of 1, never read) subscribed before the real one; all received events are re-read at the end of the history (identity, source, fields). "
    "Non-trivial: >= 3 contexts and > 3 ")
DECIDING = {
    "events_expected": "events predicted by the model and matched against the dispatch log",
    "failed_adds": "failing adds (must be silent)",
    "failed_factory_adds": "failing factory registrations (must be silent)",
    "lookups_of_existing": "lookups of existing resources (must be silent)",
    "generations": "first generations (exactly one event on the requester)",
    "generations_in_child_context": "generation in a child (parent must stay silent)",
    "race_cases_with_overlap": "concurrent lookups of one factory (exactly one generation event)",
}
ASSUMPTIONS = [
    "for a generated resource both the factory's declared types and the types actually registered in that context are accepted as 'the registered types'",
]


def plan(tier: str) -> dict[str, Any]:
    n = 800 if tier == "quick" else 150000
    return {"cases": n, "budget_s": 90 if tier == "quick" else 1500, "min_per_shard": 20}


def gen_case(idx: int, seed: int, tier: str) -> Any:
    return {"seed": f"{seed}:{idx}", "want_sample": idx % 97 == 0, "over": {"p_invalid": 0.1, "p_bad_name": 0.05},
            "weights": {"construct": 10, "enter": 5, "leave": 4, "add_resource": 28, "add_factory": 18, "lookup": 34, "race": 8}}


def run_case(case: Any) -> dict[str, Any]:
    return common.run_case(PROPERTY, case)


LEVEL_TEXT = (
    "Online monitor at the public dispatch boundary plus real listeners on every context of the tree: per command the multiset of "
    "ResourceEvents (context by identity, types, name, description, is_factory, source, topic) must equal the model's expectation, and "
    "every listener must have received exactly what was dispatched on its context. Held on the sampled histories, both backends."
)
LEVEL_NOTE = "Trusted: models/ctxtree.py; the recorder wraps Signal.dispatch from the harness (an implementation that bypassed dispatch() would be seen by the listeners only)."
TECHNIQUE = "online monitor on Signal.dispatch + per-context listener reconciliation against a lock-step model"
DESIGN_REF = "DESIGN.md section 3, C18"
