"""C18 - resource_added announces every publication exactly once, on the right context.

Deciding method: engine E1; every ResourceEvent dispatched during each command is recorded at the
public Signal.dispatch boundary (source context by identity) and compared with the model's
expectation for that command (success: exactly one on that context with the registered types, name,
description, is_factory; failure or plain lookup: none; first generation: one on the requesting
context); independently a real listener task subscribed to resource_added of *every* context must
have received exactly the dispatched events (checked after every command).
"""
from __future__ import annotations

from typing import Any

from checks import _e1_common as common

PROPERTY = "C18"
LEVEL = "exploration"
ENGINE = "E1 context-tree actors"
ANCHORS = [
    "asphalt.core._context:Context.add_resource",
    "asphalt.core._context:Context.add_resource_factory",
    "asphalt.core._context:Context.get_resource_nowait",
    "asphalt.core._context:Context.get_resource",
]
RULE = (
    "the histories of C02-C04 (mixed weights, 10% invalid calls) with a listener on every context. "
    "Every second context has a clogged listener (queue of 1, never read) subscribed before the real one; all received events are re-read at the end of the history (identity, source, fields). "
    "Non-trivial: >= 3 contexts and > 3 ")
DECIDING = {
    "events_expected": "events predicted by the model and matched against the dispatch log",
    "failed_adds": "failing adds (must be silent)",
    "failed_factory_adds": "failing factory registrations (must be silent)",
    "lookups_of_existing": "lookups of existing resources (must be silent)",
    "generations": "first generations (exactly one event on the requester)",
    "generations_in_child_context": "generation in a child (parent must stay silent)",
    "race_cases_with_overlap": "concurrent lookups of one factory (exactly one generation event)",
    "nested_generations_whose_outer_factory_failed_first": "a factory generating its dependency through another factory and then failing (the dependency is announced then, the failure is silent, the retry announces the dependant only)",
}
ASSUMPTIONS = [
    "for a generated resource both the factory's declared types and the types actually registered in that context are accepted as 'the registered types'",
]


def plan(tier: str) -> dict[str, Any]:
    n = 800 if tier == "quick" else 150000
    return {"cases": n, "budget_s": 90 if tier == "quick" else 1500, "min_per_shard": 20}


def gen_case(idx: int, seed: int, tier: str) -> Any:
    if idx % 20 == 13:
        from vkit.harness import case_rng

        rng = case_rng(PROPERTY, seed, idx)
        return {"kind": "nested", "backend": rng.choice(["asyncio", "trio"]), "outer_async": rng.random() < 0.5, "inner_async": rng.random() < 0.5,
                "outer_fails_first": rng.random() < 0.7, "in_child": rng.random() < 0.5, "multi_type": rng.random() < 0.5}
    if idx % 20 == 7:
        from vkit.harness import case_rng

        rng = case_rng(PROPERTY, seed, idx)
        return {"kind": "pending_cancel", "backend": rng.choice(["asyncio", "trio"]), "factory": rng.choice(["sync", "async_shielded", "async"]),
                "nested": rng.random() < 0.5, "api": rng.choice(["get_resource", "inject"]), "multi_type": rng.random() < 0.5}
    return {"seed": f"{seed}:{idx}", "want_sample": idx % 97 == 0, "over": {"p_invalid": 0.1, "p_bad_name": 0.05},
            "weights": {"construct": 10, "enter": 5, "leave": 4, "add_resource": 28, "add_factory": 18, "lookup": 34, "race": 8}}


async def nested_scenario(case: dict[str, Any], out: dict[str, Any]) -> None:
    """a factory that looks another factory-made resource of the same context up while it runs (a client built on a lazily made
    connection) - and fails afterwards on its first run: the dependency was generated and is announced, once, when it is generated;
    the failed generation announces nothing; the second, successful run announces the dependant once and the dependency not again"""
    import anyio
    from anyio.lowlevel import checkpoint
    from asphalt.core import Context, current_context

    Inner = type("Connection", (), {})  # noqa: N806
    Outer = type("Client", (), {})  # noqa: N806
    Extra = type("ClientInterface", (), {})  # noqa: N806
    runs = {"outer": 0}

    class OuterFailed(Exception):
        pass

    if case["inner_async"] and case["outer_async"]:
        async def inner() -> Any:
            await checkpoint()
            return Inner()
    else:
        def inner() -> Any:  # type: ignore[misc]
            return Inner()

    if case["outer_async"]:
        async def outer() -> Any:
            runs["outer"] += 1
            dep = await current_context().get_resource(Inner)
            if case["outer_fails_first"] and runs["outer"] == 1:
                raise OuterFailed("the client could not be built")
            obj = Outer()
            obj.dep = dep
            return obj
    else:
        def outer() -> Any:  # type: ignore[misc]
            runs["outer"] += 1
            dep = current_context().get_resource_nowait(Inner)
            if case["outer_fails_first"] and runs["outer"] == 1:
                raise OuterFailed("the client could not be built")
            obj = Outer()
            obj.dep = dep
            return obj

    heard: list[Any] = out["heard"]

    async def lookup(ctx: Any) -> Any:
        return await ctx.get_resource(Outer) if case["outer_async"] else ctx.get_resource_nowait(Outer)

    async with Context() as root:
        root.add_resource_factory(inner, types=[Inner])
        root.add_resource_factory(outer, types=[Outer, Extra] if case["multi_type"] else [Outer])
        async with anyio.create_task_group() as tg:
            async def body(ctx: Any) -> None:
                ready = anyio.Event()

                async def listener() -> None:
                    async with ctx.resource_added.stream_events(max_queue_size=100) as stream:
                        ready.set()
                        async for ev in stream:
                            heard.append((len(out["marks"]), tuple(ev.resource_types), ev.resource_name, ev.is_factory))

                tg.start_soon(listener)
                await ready.wait()
                if case["outer_fails_first"]:
                    try:
                        await lookup(ctx)
                        out["first"] = "returned"
                    except OuterFailed:
                        out["first"] = "OuterFailed"
                    for _ in range(3):
                        await checkpoint()
                    out["marks"].append("after-failed-run")
                got = await lookup(ctx)
                for _ in range(3):
                    await checkpoint()
                out["marks"].append("after-successful-run")
                out["dep_same"] = got.dep is ctx.get_resource_nowait(Inner)
                await lookup(ctx)  # (a lookup of what exists announces nothing)
                for _ in range(3):
                    await checkpoint()
                tg.cancel_scope.cancel()

            if case["in_child"]:
                async with Context() as child:
                    await body(child)
            else:
                await body(root)
    out["Inner"], out["Outer"] = Inner, Outer


def run_nested(case: dict[str, Any]) -> dict[str, Any]:
    from vkit.trace import describe_exc
    from vkit.vtime import VirtualDeadlock, run_virtual

    out: dict[str, Any] = {"heard": [], "marks": []}
    V: list[dict[str, Any]] = []

    def bad(key: str, msg: str) -> None:
        V.append({"key": key, "msg": "a factory that generates its dependency through another factory of the same context: " + msg,
                  "witness": {"case": case, "heard": [(m, [t.__name__ for t in ts], n, f) for m, ts, n, f in out["heard"]], "first": out.get("first")}})

    try:
        run_virtual(case["backend"], nested_scenario, case, out)
    except VirtualDeadlock as e:
        bad("history-deadlock", f"the scenario never finished: {e}")
    except Exception as e:
        bad("announce-unexpected", f"the scenario raised {describe_exc(e)}")
    if not V:
        Inner, Outer = out["Inner"], out["Outer"]  # noqa: N806
        inner_events = [h for h in out["heard"] if Inner in h[1]]
        outer_events = [h for h in out["heard"] if Outer in h[1]]
        if case["outer_fails_first"] and out.get("first") != "OuterFailed":
            bad("announce-unexpected", f"the first lookup, whose factory fails, {out.get('first')}")
        if len(inner_events) != 1 or inner_events[0][0] != 0:
            bad("announce-missing" if not inner_events or inner_events[0][0] != 0 else "announce-unexpected",
                f"the dependency was generated during the first run of the dependant's factory; its listener heard {len(inner_events)} event(s) for it, "
                f"the first one {'never' if not inner_events else 'only after mark #' + str(inner_events[0][0])} (expected exactly one, right then)")
        want_mark = 1 if case["outer_fails_first"] else 0
        if len(outer_events) != 1 or outer_events[0][0] != want_mark:
            bad("announce-unexpected" if len(outer_events) > 1 else "announce-missing",
                f"the dependant was generated once, by the {'second' if want_mark else 'first'} lookup; its listener heard {len(outer_events)} event(s) for it "
                f"(marks: {[h[0] for h in outer_events]})")
        if out.get("dep_same") is not True:
            bad("announce-unexpected", "the dependant holds another dependency object than the context returns")
    c = {"nested_generation_scenarios": 1, "nested_generations_whose_outer_factory_failed_first": int(bool(case["outer_fails_first"]))}
    return {"violations": V[:3], "sig": ("nested", tuple(sorted(case.items()))), "nontrivial": True, "counters": c, "sample": None}


async def pending_cancel_scenario(case: dict[str, Any], out: dict[str, Any]) -> None:
    """a lookup that has to generate the resource is made from a scope that has *already been cancelled* (the cancellation is pending, not
    yet delivered).  Whether the lookup then completes or is cancelled is up to where it yields - but the context never ends up holding
    a generated resource that was not announced, nor announces one it does not hold"""
    import anyio
    from asphalt.core import Context, ResourceEvent, inject, resource

    Made = type("Made", (), {})  # noqa: N806
    Also = type("Also", (), {})  # noqa: N806
    types = [Made, Also] if case["multi_type"] else [Made]
    made: list[Any] = []

    def sync_factory() -> Any:
        made.append(Made())
        return made[-1]

    async def async_factory() -> Any:
        if case["factory"] == "async_shielded":
            with anyio.CancelScope(shield=True):
                await anyio.sleep(0.5)  # (finishes its work whatever happens to the caller)
        else:
            await anyio.sleep(0.5)
        made.append(Made())
        return made[-1]

    @inject
    async def injected(*, thing: Made = resource()) -> Any:
        return thing

    heard: list[Any] = []

    async def body() -> None:
        async with Context() as ctx, anyio.create_task_group() as tg:
            ready = anyio.Event()

            async def listen() -> None:
                async with ctx.resource_added.stream_events() as stream:
                    ready.set()
                    async for ev in stream:
                        heard.append(ev)

            tg.start_soon(listen)
            await ready.wait()
            ctx.add_resource_factory(sync_factory if case["factory"] == "sync" else async_factory, types=types)
            with anyio.CancelScope() as scope:
                scope.cancel()
                try:
                    out["got"] = await (ctx.get_resource(Made) if case["api"] == "get_resource" else injected())
                    out["lookup"] = "returned"
                except BaseException as e:
                    out["lookup"] = "raised " + type(e).__name__
                    raise
            await anyio.wait_all_tasks_blocked()
            out["stored"] = dict(ctx.get_resources(Made))
            out["stored_also"] = dict(ctx.get_resources(Also))
            tg.cancel_scope.cancel()

    if case["nested"]:
        async with Context():
            await body()
    else:
        await body()
    out["generation_events"] = [(ev.resource_types, ev.resource_name) for ev in heard if isinstance(ev, ResourceEvent) and not ev.is_factory]
    out["made"] = len(made)


def run_pending_cancel(case: dict[str, Any]) -> dict[str, Any]:
    from vkit.trace import describe_exc
    from vkit.vtime import VirtualDeadlock, run_virtual

    out: dict[str, Any] = {}
    V: list[dict[str, Any]] = []

    def bad(key: str, msg: str) -> None:
        if not any(v["key"] == key for v in V):
            V.append({"key": key, "msg": msg, "witness": {"case": case, "observed": {k: repr(v)[:300] for k, v in out.items()}}})

    try:
        run_virtual(case["backend"], pending_cancel_scenario, case, out)
    except VirtualDeadlock as e:
        bad("history-deadlock", f"the scenario never finished: {e}")
    except Exception as e:
        bad("announce-unexpected", f"the scenario raised {describe_exc(e)}")
    if not V:
        stored, events = out.get("stored", {}), out.get("generation_events", [])
        if stored and not events:
            bad("announce-missing", f"a lookup made under a pending cancellation ({out.get('lookup')}) left a generated resource in the context that was never announced")
        elif events and not stored:
            bad("announce-unexpected", f"a lookup made under a pending cancellation ({out.get('lookup')}) announced a generated resource the context does not hold")
        elif len(events) > 1:
            bad("announce-unexpected", f"{len(events)} generation events for one generation")
        elif events and case["multi_type"] and len(events[0][0]) != 2:
            bad("announce-fields", f"the generation event names the types {events[0][0]}; the factory was declared for two")
        if out.get("lookup") == "returned" and (not stored or out.get("got") is not stored.get("default")):
            bad("announce-unexpected", "the lookup returned an object that the context does not hold")
    c = {"lookups_made_under_a_pending_cancellation": 1, "lookups_under_a_pending_cancellation_that_stored_a_resource": int(bool(out.get("stored")))}
    return {"violations": V[:3], "sig": ("pending_cancel", tuple(sorted(case.items())), out.get("lookup")), "nontrivial": True, "counters": c, "sample": None}


def run_case(case: Any) -> dict[str, Any]:
    if case.get("kind") == "nested":
        return run_nested(case)
    if case.get("kind") == "pending_cancel":
        return run_pending_cancel(case)
    return common.run_case(PROPERTY, case)


LEVEL_TEXT = (
    "Online monitor at the public dispatch boundary plus real listeners on every context of the tree: per command the multiset of "
    "ResourceEvents (context by identity, types, name, description, is_factory, source, topic) must equal the model's expectation, and "
    "every listener must have received exactly what was dispatched on its context. Held on the sampled histories, both backends."
)
LEVEL_NOTE = "Trusted: models/ctxtree.py; the recorder wraps Signal.dispatch from the harness (an implementation that bypassed dispatch() would be seen by the listeners only)."
TECHNIQUE = "online monitor on Signal.dispatch + per-context listener reconciliation against a lock-step model"
DESIGN_REF = "DESIGN.md section 3, C18"
