"""C09 - task factories: inherited context, exact handle set, teardown waits, errors kept.

Deciding method: generated programs (engine E4) start a background task factory in a root or nested
owner context and spawn 1-14 tasks with start_task / start_task_soon from the owner's task, from an
unrelated context entered in another task, from a synchronous callback and from other spawned tasks;
tasks return, raise or are cancelled through their handle; a sequential driver compares
all_task_handles() with a model live-set after *every* step in virtual time; waiters call
wait_finished(); the owner block ends while tasks are still running; finally a spawn is attempted on
the finished factory.  The trace checker decides context parent / snapshot of every task, exact end
times, that cancel() and the teardown cancel nobody else, handler invocation counts and verdicts.
"""
from __future__ import annotations

from typing import Any

import vkit  # noqa: F401
from engines import e4_tasks as e4
from vkit.harness import case_rng

PROPERTY = "C09"
LEVEL = "exploration"
ENGINE = "E4 task programs"
ANCHORS = ["asphalt.core._concurrent:TaskFactory.start_task", "asphalt.core._concurrent:TaskFactory.start_task_soon",
           "asphalt.core._concurrent:TaskFactory._run_background_task", "asphalt.core._concurrent:TaskFactory._run",
           "asphalt.core._concurrent:run_background_task", "asphalt.core._context:Context.start_background_task_factory"]
RULE = (
    "random programs of 3-14 driver commands {spawn (start_task with/without task_status, start_task_soon; from owner task / unrelated context / "
    "sync callback / another spawned task; duration on a .125 grid; returns or raises), cancel(handle), wait_finished(handle) in a waiter task, "
    "sleep, yields}; exception handler None or returning True/False/None/1/0; root or nested owner; the owner block ends with 0..n tasks running; "
    "optional spawn attempt after the factory finished. "
    "Factory started by method, module shortcut or from inside a component, in a context with or without resources; tasks whose clean-up raises while cancelled through the handle; callable forms as in C08. "
    "Non-trivial: >= 2 tasks alive at some handle-set check or the owner left with tasks ")
DECIDING = {
    "handle_set_checks": "all_task_handles() compared with the model live-set",
    "tasks_raising_while_cancelled_through_handle": "tasks whose clean-up raised an Exception while they were being cancelled through their handle",
    "handle_set_checks_with_2plus_live": "comparisons with >= 2 live tasks",
    "spawned_from_foreign": "tasks spawned from an unrelated context",
    "spawned_from_sync-callback": "tasks spawned from a synchronous callback",
    "spawned_from_task": "tasks spawned by other spawned tasks",
    "tasks_cancelled_through_handle": "cancel() through the handle",
    "wait_finished_returns": "wait_finished() returns observed",
    "owner_left_with_tasks_running": "owner context left while tasks were running (must wait, not cancel)",
    "tasks_spawned_during_teardown": "tasks spawned by a still-running task while the owning context was already being torn down",
    "exceptions_swallowed": "handler verdict truthy",
    "exceptions_propagated": "handler verdict falsy / no handler",
    "exceptions_from_task_context_teardown": "exception escaping through the teardown of the task's own context",
    "spawn_attempts_on_finished_factory": "spawn attempted after the factory finished",
}
ASSUMPTIONS = ["exception handlers do not raise; at most one propagating failure per program (after it only surfacing is checked)"]


def plan(tier: str) -> dict[str, Any]:
    n = 5000 if tier == "quick" else 400000
    return {"cases": n, "budget_s": 90 if tier == "quick" else 1500, "min_per_shard": 50}


def gen_case(idx: int, seed: int, tier: str) -> Any:
    return e4.gen_factory_program(case_rng(PROPERTY, seed, idx))


def run_case(case: Any) -> dict[str, Any]:
    run = e4.execute_factory(case)
    V, c = e4.check_factory(run)
    c["programs"] = 1
    c[f"backend_{case['backend']}"] = 1
    nontrivial = c.get("handle_set_checks_with_2plus_live", 0) > 0 or c.get("owner_left_with_tasks_running", 0) > 0
    sample = None
    if nontrivial and len(run.trace) < 70:
        sample = {"program": case, "trace": run.trace.compact(70)}
    return {"violations": V, "sig": run.trace.signature(), "nontrivial": nontrivial, "counters": c, "sample": sample}


LEVEL_TEXT = (
    "Runtime history checking in virtual time: a model live-set is compared with all_task_handles() after every driver step; per task the "
    "context parent, the resource snapshot, the exact end time, who received cancellation, wait_finished() timing, and per escaping exception "
    "the handler call count, the verdict's effect and surfacing from the root context are decided from the recorded trace. Sampled programs "
    "and interleavings on both backends."
)
LEVEL_NOTE = "Trusted: engines/e4_tasks.py, virtual clocks. Ties between a task's end and a driver step are avoided by construction (.125 vs .5 grids)."
TECHNIQUE = "model live-set reconciliation at every step + trace checker with exact virtual end times"
DESIGN_REF = "DESIGN.md section 3, C09"
