"""Shared driver of the four checks that run on engine E1 (C02, C03, C04, C18)."""
from __future__ import annotations

from typing import Any

import vkit  # noqa: F401
from engines import e1_context as e1
from vkit.harness import case_rng

# which property owns which violation key (prefix match); a violation not owned by the running check is
# reported as a cross-firing (printed in the counters), never as that check's verdict
OWNERS: list[tuple[str, set[str]]] = [
    ("failed-call-changed-state[AsyncResourceError", {"C04"}),
    ("failed-call-changed-state[ResourceNotFound", {"C02"}),
    ("failed-call-changed-state", {"C03"}),
    ("failed-call-dispatched-event", {"C03", "C18"}),
    ("atomic-teardown-set", {"C03"}),
    ("add-", {"C03"}),
    ("add-factory-", {"C03"}),
    ("singleton-different-object", {"C03", "C04"}),
    ("generated-not-fresh", {"C04"}),
    ("factory-call-count", {"C04"}),
    ("race-", {"C04"}),
    ("lookup[factory]", {"C04", "C02"}),
    ("lookup", {"C02"}),
    ("scope-", {"C02"}),
    ("current-parent", {"C02"}),
    ("announce-race-duplicate", {"C18", "C04"}),
    ("announce-", {"C18"}),
    ("history-deadlock", {"C02", "C03", "C04", "C18"}),
    ("lifecycle-", {"C02", "C03", "C04", "C18"}),
]


def owners(key: str) -> set[str]:
    if key.startswith("visible["):
        inner = key[len("visible["):-1].split(",")
        own = {"C02"}
        if "gen" in inner:
            own.add("C04")
            if inner[0] in ("lookup", "race") and "other-ctx" not in inner:
                own.add("C03")
        return own
    for prefix, own in OWNERS:
        if key.startswith(prefix):
            return own
    return {"C02", "C03", "C04", "C18"}


def run_case(prop: str, case: dict[str, Any]) -> dict[str, Any]:
    rng = case_rng(prop, 0, 0, case["seed"])
    params = e1.default_params(rng, **case.get("over", {}))
    if "weights" in case:
        params["weights"].update(case["weights"])
    eng = e1.run_history(params, rng)
    counters = dict(eng.counters)
    counters["histories"] = 1
    counters[f"backend_{params['backend']}"] = 1
    mine = []
    for v in eng.violations:
        if prop in owners(v["key"]):
            v["witness"]["params"] = {k: params[k] for k in ("backend", "sched_seed", "shuffle", "commands")}
            mine.append(v)
        else:
            counters[f"cross_firing[{v['key']}]"] = 1
    tree = tuple(sorted((c.parent or 0) for c in eng.model.ctxs.values()))
    sample = None
    if case.get("want_sample"):
        sample = {"backend": params["backend"], "commands": eng.history[:40], "contexts": len(eng.model.ctxs)}
    return {"violations": mine, "sig": (tree, sorted(eng.states)[:50], len(eng.states)), "nontrivial": eng.nontrivial and len(eng.states) > 3,
            "counters": counters, "sample": sample}
