"""C14 - component configuration is a layered deep merge that fully determines the tree.

Deciding method: logical component trees are generated (hard-coded add_component() kwargs with nested
dict values, external `components` configuration that overrides / extends / adds config-only
children / gives None, aliases with and without a `/name` suffix) and started with the real
start_component under three ways of naming every type (class object, `module:attr` reference,
entry-point name through a real *.dist-info fixture - also derived from the alias).  Every
constructor records the keyword arguments it actually received; the oracle is an independent model
(fold-based deep merge per level) plus differential comparison between the naming modes and between
two runs, plus deep + identity snapshots of the caller's configuration object, plus the resource names
and ResourceEvents observed in the surrounding context for `default`-named resources added in
prepare() and start().
"""
from __future__ import annotations

import copy
from typing import Any

import anyio

import vkit  # noqa: F401
from models.merge import canon, ids, model_merge
from vkit.harness import case_rng
from vkit.trace import describe_exc
from vkit.vtime import VirtualDeadlock, run_virtual

PROPERTY = "C14"
LEVEL = "exploration"
ENGINE = "E7 differential (component configuration)"
ANCHORS = ["asphalt.core._component:_init_component", "asphalt.core._component:Component.add_component",
           "asphalt.core._component:ComponentContext.add_resource", "asphalt.core._component:ComponentContext.add_resource_factory",
           "asphalt.core._utils:PluginContainer.resolve", "asphalt.core._utils:resolve_reference"]
RULE = (
    "random logical trees (depth <= 3, fan-out <= 3): per child hard-coded kwargs (0-3 keys from a pool, values scalar or nested dict), "
    "external configuration per alias in {absent, overriding scalars, nested-dict merge, dict-vs-scalar collisions, new keys}, config-only "
    "children (with a dict or None), aliases `name` or `kind/name`; each tree is started under naming modes {class, module:attr, entry point, "
    "mixed} and twice under one of them with the *same* config object. Non-trivial: a tree with >= 1 overriding external entry and >= 1 "
    "config-only child or nested merge; distinct = canonical (hard-coded tree, external config) pair."
)
DECIDING = {
    "nodes_kwargs_compared": "constructor kwargs compared with the model merge",
    "external_overrides": "external values overriding hard-coded ones",
    "nested_dict_merges": "nested dict values merged across the two layers",
    "config_only_children": "children that exist only in the external configuration",
    "none_config_children": "config-only children given as None",
    "alias_with_suffix": "aliases `kind/name`",
    "alias_derived_type": "type derived from the alias (entry-point name)",
    "naming_modes_compared": "naming modes whose trees were compared with each other",
    "config_reuse_runs": "second start with the same configuration object",
    "default_name_in_start": "`default` resources added in start() (remapped for suffixed aliases)",
    "default_name_in_prepare": "`default` resources added in prepare() (never remapped)",
    "depth3_trees": "trees with grandchildren",
    "ordered_dict_configs": "external configuration given as OrderedDict objects at every level",
}
ASSUMPTIONS = [
    "hard-coded kwargs never use the reserved keys `type` / `components`; None is only given for config-only children",
    "values that are Mapping but not dict are not generated",
]

KEYS = ["a", "b", "opts", "x.y", "x"]  # "x" and "x.y" side by side: a dotted key is a key of its own


def gen_value(rng: Any, depth: int = 0) -> Any:
    if depth < 2 and rng.random() < 0.35:
        return {k: gen_value(rng, depth + 1) for k in rng.sample(["p", "q", "r.s", "r"], rng.randint(0, 3))}
    return rng.choice([0, 1, "s", None, [1, 2], True])


def gen_kwargs(rng: Any) -> dict[str, Any]:
    return {k: gen_value(rng) for k in rng.sample(KEYS, rng.randint(0, 3))}


def gen_logical_tree(rng: Any) -> dict[str, Any]:
    """nodes: path -> {alias, kind in {hard, config_only}, shape, hard_kwargs, ext (None | 'NONE' | dict), children}"""
    nodes: dict[str, Any] = {}
    free_eps = {"none": "vf_none", "prepare": "vf_prepare", "start": "vf_start", "both": "vf_both"}

    def make(path: str, alias: str, depth: int, kind: str, alias_shape: str | None = None) -> None:
        shape = alias_shape or rng.choice(["none", "prepare", "start", "both", "both"])
        node = {"alias": alias, "kind": kind, "shape": shape, "hard_kwargs": gen_kwargs(rng) if kind == "hard" and path else {},
                "children": [], "ext": None, "alias_derived": alias_shape is not None, "starts_plugin": rng.random() < 0.25,
                "type_from_ext": kind == "hard" and bool(path) and rng.random() < 0.2, "sync_start": rng.random() < 0.2}
        if path:
            r = rng.random()
            if kind == "config_only":
                node["ext"] = "NONE" if (r < 0.5 and alias_shape is not None) else gen_kwargs(rng)
            elif r < 0.6:
                ext = gen_kwargs(rng)
                # make overriding / merging likely
                for k, v in node["hard_kwargs"].items():
                    if rng.random() < 0.6:
                        ext[k] = gen_value(rng) if not isinstance(v, dict) or rng.random() < 0.3 else {**{kk: gen_value(rng, 1) for kk in list(v)[:1]}, "extra": 1}
                node["ext"] = ext
        nodes[path] = node
        if depth < 3:
            fan = rng.choice([0, 1, 2, 3]) if depth else rng.choice([1, 2, 3])
            used = set()
            for i in range(fan):
                base = f"n{i}"
                ashape = None
                if free_eps and rng.random() < 0.2:
                    # type derived from the alias: the alias is an entry-point name (at most one per shape and tree)
                    ashape = rng.choice(sorted(free_eps))
                    base = free_eps.pop(ashape)
                if rng.random() < 0.3:
                    base = f"{base}/{rng.choice(['x', 'y', 'zed'])}"
                if base in used:
                    continue
                used.add(base)
                cpath = f"{path}.{base}" if path else base
                node["children"].append(cpath)
                ckind = "config_only" if rng.random() < 0.3 else "hard"
                make(cpath, base, depth + 1, ckind, ashape)

    make("", "", 0, "hard")
    return {"nodes": nodes, "root_kwargs": gen_kwargs(rng), "mapping_kind": rng.choice(["dict", "dict", "ordered"])}


class Harness:
    def __init__(self, tree: dict[str, Any], mode: str, mix_seed: int) -> None:
        import random

        self.tree, self.mode = tree, mode
        self.rng = random.Random(mix_seed)
        self.received: dict[str, Any] = {}
        self.order: list[str] = []
        self.classes: dict[str, Any] = {}
        self.naming: dict[str, str] = {}
        self.resources_seen: dict[str, Any] = {}
        self.events: list[Any] = []

    def naming_of(self, path: str) -> str:
        if self.tree["nodes"][path].get("alias_derived"):
            return "alias"
        if path not in self.naming:
            self.naming[path] = self.mode if self.mode != "mixed" else self.rng.choice(["class", "ref", "entrypoint"])
        return self.naming[path]

    def build(self) -> None:
        import sys
        import types as _types

        import verif_fixture_components as vf
        from asphalt.core import Component, add_resource, add_resource_factory

        h = self
        nodes = self.tree["nodes"]
        dyn = sys.modules.setdefault("verif_dyn_components", _types.ModuleType("verif_dyn_components"))

        def make(path: str) -> Any:
            node = nodes[path]
            hard = [c for c in node["children"] if nodes[c]["kind"] == "hard"]

            def __init__(self: Any, **kw: Any) -> None:
                h.received[path] = copy.deepcopy(kw)
                h.order.append(path)
                for c in hard:
                    # the hard-coded defaults are passed as the very same (nested) objects on every start, like
                    # module-level DEFAULTS constants in an application: starting must not modify them
                    if h.naming_of(c) == "alias":  # no type given: derived from the alias
                        self.add_component(nodes[c]["alias"], **nodes[c]["hard_kwargs"])
                    elif nodes[c].get("type_from_ext"):
                        # the container hard-codes the child's options only; *which* component it is comes from the external
                        # configuration (the alias alone names no component type)
                        self.add_component(nodes[c]["alias"], **nodes[c]["hard_kwargs"], **h.extra(c))
                    else:
                        self.add_component(nodes[c]["alias"], h.type_arg(c), **nodes[c]["hard_kwargs"], **h.extra(c))
                if len(path) % 2 == 0:
                    # a constructor that chains up only *after* it has declared its children (cooperative mixins often do)
                    Component.__init__(self)

            async def prepare(self: Any) -> None:
                add_resource(("prepare", path), "default", types=[h.marker_type(path, "prepare")])

            async def start(self: Any) -> None:
                add_resource(("start", path), "default", types=[h.marker_type(path, "start")])
                add_resource(("start-explicit", path), "explicit", types=[h.marker_type(path, "start")])
                add_resource_factory(lambda: ("factory", path), "default", types=[h.marker_type(path, "factory")])
                if node.get("starts_plugin"):
                    # the component starts a component tree of its own: that tree's root has no alias, its `default` stays `default`
                    from asphalt.core import start_component as _start

                    class PlugIn(Component):
                        async def start(self_inner) -> None:  # noqa: N805
                            add_resource(("plugin", path), "default", types=[h.marker_type(path, "plugin")])

                    await _start(PlugIn, timeout=None)

            if node.get("sync_start"):
                # start() written as a plain function that registers its default-named resources right away and hands back an
                # awaitable for the rest (a decorator that wraps an `async def start` has the same shape): it is start() all the same
                async_rest = start

                def start(self: Any) -> Any:  # noqa: F811
                    add_resource(("start-sync-part", path), "default", types=[h.marker_type(path, "start_sync")])
                    return async_rest(self)

            methods: dict[str, Any] = {}
            if node["shape"] in ("prepare", "both"):
                methods["prepare"] = prepare
            if node["shape"] in ("start", "both"):
                methods["start"] = start
            if h.naming_of(path) in ("entrypoint", "alias"):
                ep, cls = vf.BY_SHAPE[(("prepare" in methods), ("start" in methods))]
                vf.REGISTRY[path if h.naming_of(path) == "entrypoint" else f"__alias__:{ep}"] = {"ctor": __init__, **methods}
                return cls
            cls = type("Cfg_" + (path.replace(".", "_").replace("/", "__") or "root"), (Component,), {"__init__": __init__, **methods})
            if h.naming_of(path) == "ref":
                setattr(dyn, cls.__name__, cls)
                # (every other reference names the class as an attribute of another object: `module:Holder.Inner`)
                setattr(dyn, "Holder_" + cls.__name__, type("Holder_" + cls.__name__, (), {"Inner": cls}))
            return cls

        for path in sorted(nodes, key=lambda p: -p.count(".") - (1 if p else 0)):
            self.classes[path] = make(path)

    _marker_types: dict[Any, type] = {}

    def marker_type(self, path: str, what: str) -> type:
        key = (path, what)
        if key not in Harness._marker_types:
            Harness._marker_types[key] = type(f"M_{what}_{len(Harness._marker_types)}", (), {})
        return Harness._marker_types[key]

    def type_arg(self, path: str) -> Any:
        import verif_fixture_components as vf

        node = self.tree["nodes"][path]
        naming = self.naming_of(path)
        if naming == "ref":
            name = self.classes[path].__name__
            return f"verif_dyn_components:Holder_{name}.Inner" if len(path) % 2 else f"verif_dyn_components:{name}"
        if naming == "entrypoint":
            return vf.BY_SHAPE[(node["shape"] in ("prepare", "both"), node["shape"] in ("start", "both"))][0]
        return self.classes[path]

    def extra(self, path: str) -> dict[str, Any]:
        return {"verif_path": path} if self.naming_of(path) == "entrypoint" else {}

    def external_config(self) -> dict[str, Any]:
        nodes = self.tree["nodes"]

        def comps(path: str) -> dict[str, Any]:
            out: dict[str, Any] = {}
            for c in nodes[path]["children"]:
                n = nodes[c]
                sub = comps(c)
                if n["kind"] == "config_only":
                    if n["ext"] == "NONE" and not sub:
                        out[n["alias"]] = None  # only possible when the type can be derived from the alias
                        continue
                    entry: dict[str, Any] = {} if n["ext"] in (None, "NONE") else copy.deepcopy(n["ext"])
                    if self.naming_of(c) != "alias":
                        entry["type"] = self.type_arg(c)
                    entry.update(self.extra(c))
                    if sub:
                        entry["components"] = sub
                    out[n["alias"]] = entry
                else:
                    entry = {} if n["ext"] is None else copy.deepcopy(n["ext"])
                    if n.get("type_from_ext") and self.naming_of(c) != "alias":
                        entry["type"] = self.type_arg(c)
                    if sub:
                        entry["components"] = sub
                    if entry or n["ext"] is not None:
                        out[n["alias"]] = entry
            return out

        cfg = copy.deepcopy(self.tree["root_kwargs"])
        c = comps("")
        if c:
            cfg["components"] = c
        cfg.update(self.extra(""))
        if self.tree.get("mapping_kind") == "ordered":
            # the configuration as dict *subclasses* at every level (e.g. what some YAML / TOML loaders produce)
            import collections

            def conv(x: Any) -> Any:
                if isinstance(x, dict):
                    return collections.OrderedDict((k, conv(v) if k == "components" or isinstance(v, dict) and k not in KEYS else v) for k, v in x.items())
                return x

            cfg = conv(cfg)
        return cfg

    def expected_kwargs(self) -> dict[str, Any]:
        """the model: per level, hard-coded kwargs deep-merged with and overridden by the external entry"""
        nodes = self.tree["nodes"]
        out: dict[str, Any] = {"": copy.deepcopy(self.tree["root_kwargs"])}
        for p, n in nodes.items():
            if not p:
                continue
            ext = {} if n["ext"] in (None, "NONE") else n["ext"]
            out[p] = model_merge(n["hard_kwargs"], ext)
        return out


async def one_run(h: Harness, cfg: dict[str, Any], out: dict[str, Any]) -> None:
    from asphalt.core import Context, start_component

    h.received.clear()
    h.order.clear()
    h.events = []
    async with Context() as ctx:
        async with anyio.create_task_group() as tg:
            ready = anyio.Event()

            async def listen() -> None:
                async with ctx.resource_added.stream_events(max_queue_size=10000) as s:
                    ready.set()
                    async for ev in s:
                        h.events.append((ev.resource_types, ev.resource_name, ev.is_factory))

            tg.start_soon(listen)
            await ready.wait()
            try:
                out["returned"] = await start_component(h.type_arg(""), cfg, timeout=None)
                out["error"] = None
            except Exception as e:
                out["error"] = e
            await anyio.wait_all_tasks_blocked()
            tg.cancel_scope.cancel()
        seen = {}
        for p in h.tree["nodes"]:
            for what in ("prepare", "start", "factory", "plugin", "start_sync"):
                T = h.marker_type(p, what)
                if what == "factory":
                    names = sorted(n for (types, n, is_f) in h.events if T in types and is_f)
                else:
                    names = sorted(ctx.get_resources(T))
                seen[(p, what)] = names
        out["seen"] = seen
        out["events"] = list(h.events)


async def scenario(case: dict[str, Any], out: dict[str, Any]) -> None:
    tree = case["tree"]
    V: list[dict[str, Any]] = out["violations"]
    cnt: dict[str, int] = out["counters"]

    def inc(k: str, n: int = 1) -> None:
        cnt[k] = cnt.get(k, 0) + n

    def bad(key: str, msg: str, **w: Any) -> None:
        if len(V) < 6 and not any(v["key"] == key for v in V):
            V.append({"key": key, "msg": msg, "witness": {**w, "tree": tree}})

    pristine = copy.deepcopy(tree)  # the model works on a private copy of the logical tree
    tree = copy.deepcopy(tree)  # the harness passes this copy's hard-coded dict objects to every start
    nodes = tree["nodes"]
    results: dict[str, Any] = {}
    for mode in case["modes"]:
        h = Harness(tree, mode, case["mix_seed"])
        h.build()
        cfg = h.external_config()
        snap, snap_ids = canon(cfg), {i: canon(o) for i, o in ids(cfg).items()}
        holder = ids(cfg)
        r: dict[str, Any] = {}
        await one_run(h, cfg, r)
        if r["error"] is not None:
            bad("config-start-failed", f"start_component failed under naming mode {mode}: {describe_exc(r['error'])}", mode=mode, config=repr(cfg)[:1500])
            continue
        exp = Harness(pristine, mode, case["mix_seed"]).expected_kwargs()
        if canon({p: n["hard_kwargs"] for p, n in nodes.items()}) != canon({p: n["hard_kwargs"] for p, n in pristine["nodes"].items()}):
            bad("config-hardcoded-defaults-mutated", f"start_component modified the (nested) default values hard-coded in add_component() calls (mode {mode})", mode=mode)
        got = {p: {k: v for k, v in kw.items() if k != "verif_path"} for p, kw in h.received.items()}
        for p in nodes:
            inc("nodes_kwargs_compared")
            if p not in got:
                kind = nodes[p]["kind"]
                bad("config-child-missing" if kind == "hard" else "config-only-child-missing",
                    f"component {p!r} ({kind}) was never constructed under naming mode {mode}", mode=mode, config=repr(cfg)[:1500])
            elif canon(got[p]) != canon(exp[p]):
                bad("config-kwargs", f"component {p!r} was constructed with {got[p]!r}; hard-coded {pristine['nodes'][p]['hard_kwargs']!r} merged with external "
                                     f"{nodes[p]['ext']!r} gives {exp[p]!r}", mode=mode)
        extra = set(got) - set(nodes)
        if extra:
            bad("config-extra-component", f"unexpected components constructed: {sorted(extra)}")
        # caller's configuration object untouched
        if canon(cfg) != snap or any(canon(o) != snap_ids[i] for i, o in holder.items()):
            bad("config-mutated", f"start_component modified the configuration object it was given (mode {mode}): now {cfg!r}", mode=mode)
        # ... also by a start that *fails* because a type named in the configuration cannot be resolved / is no component class
        if isinstance(cfg.get("components"), dict) and cfg["components"]:
            cfg2 = copy.deepcopy(cfg)
            victim = sorted(cfg2["components"], key=str)[0]
            if cfg2["components"][victim] is None:
                cfg2["components"][victim] = {}
            cfg2["components"][victim]["type"] = "verif_no_such_component_type" if len(victim) % 2 else "builtins:dict"
            snap2, holder2 = canon(cfg2), ids(cfg2)
            snap2_ids = {i: canon(o) for i, o in holder2.items()}
            r2: dict[str, Any] = {}
            kept = (dict(h.received), list(h.order), list(h.events))
            await one_run(h, cfg2, r2)
            h.received.clear()
            h.received.update(kept[0])
            h.order[:] = kept[1]
            h.events = kept[2]
            inc("starts_failing_on_an_unresolvable_type_in_the_configuration", int(r2["error"] is not None))
            if r2["error"] is not None and (canon(cfg2) != snap2 or any(canon(o) != snap2_ids[i] for i, o in holder2.items())):
                bad("config-mutated", f"a start_component that failed ({describe_exc(r2['error'])}) left the configuration object it was given modified (mode {mode}): "
                                      f"now {cfg2!r}", mode=mode)
        # resource names: `default` in prepare() stays, in start() becomes the alias suffix; explicit names stay
        for p, n in nodes.items():
            suffix = n["alias"].split("/", 1)[1] if "/" in n["alias"] else "default"
            if n["shape"] in ("prepare", "both"):
                inc("default_name_in_prepare")
                if r["seen"][(p, "prepare")] != ["default"]:
                    bad("config-default-name-prepare", f"resource added as `default` in prepare() of {p!r} appears under {r['seen'][(p, 'prepare')]}")
            if n["shape"] in ("start", "both"):
                inc("default_name_in_start")
                want = sorted({suffix, "explicit"})
                if r["seen"][(p, "start")] != want:
                    bad("config-default-name-start", f"resources added in start() of {p!r} (alias {n['alias']!r}) as `default` and `explicit` appear under "
                                                     f"{r['seen'][(p, 'start')]}, expected {want}")
                if r["seen"][(p, "factory")] != [suffix]:
                    bad("config-default-name-start", f"factory added as `default` in start() of {p!r} (alias {n['alias']!r}) announced under {r['seen'][(p, 'factory')]}, expected {[suffix]}")
                # the ResourceEvent of the remapped resource carries the remapped name
                T = h.marker_type(p, "start")
                names = sorted(nm for (types, nm, is_f) in r["events"] if T in types and not is_f)
                if names != want:
                    bad("config-event-name", f"ResourceEvents for start() resources of {p!r}: names {names}, expected {want}")
            if n.get("sync_start") and n["shape"] in ("start", "both"):
                inc("start_methods_that_are_plain_functions_returning_an_awaitable")
                if r["seen"][(p, "start_sync")] != [suffix]:
                    bad("config-default-name-start", f"a resource added as `default` by the synchronous part of start() of {p!r} (alias {n['alias']!r}) appears under "
                                                     f"{r['seen'][(p, 'start_sync')]}, expected {[suffix]}")
            if n.get("starts_plugin") and n["shape"] in ("start", "both"):
                inc("nested_trees_started_by_components")
                if r["seen"][(p, "plugin")] != ["default"]:
                    bad("config-default-name-nested-tree", f"the root of a component tree started from start() of {p!r} (alias {n['alias']!r}) added a resource as `default`; "
                                                           f"it appears under {r['seen'][(p, 'plugin')]}")
            if "/" in n["alias"]:
                inc("alias_with_suffix")
            if n.get("alias_derived"):
                inc("alias_derived_type")
        results[mode] = {"kwargs": got, "order": list(h.order)}
        # second run with the same configuration object
        if mode == case["reuse_mode"]:
            inc("config_reuse_runs")
            r2: dict[str, Any] = {}
            h.build()
            await one_run(h, cfg, r2)
            if r2["error"] is not None:
                bad("config-reuse-failed", f"a second start_component with the same configuration object failed: {describe_exc(r2['error'])}", config=repr(cfg)[:1500])
            else:
                got2 = {p: {k: v for k, v in kw.items() if k != "verif_path"} for p, kw in h.received.items()}
                if canon(got2) != canon(got) or h.order != results[mode]["order"]:
                    bad("config-nondeterministic", "two starts from the same configuration produced different trees")
    modes_ok = [m for m in case["modes"] if m in results]
    for a, b in zip(modes_ok, modes_ok[1:]):
        inc("naming_modes_compared")
        if canon(results[a]["kwargs"]) != canon(results[b]["kwargs"]) or results[a]["order"] != results[b]["order"]:
            bad("config-naming-differs", f"naming the types as {a} and as {b} produced different trees")
    # coverage counters
    for p, n in nodes.items():
        if not p:
            continue
        if n["kind"] == "config_only":
            inc("config_only_children")
            if n["ext"] == "NONE":
                inc("none_config_children")
        if isinstance(n["ext"], dict):
            for k, v in n["ext"].items():
                if k in n["hard_kwargs"]:
                    inc("external_overrides")
                    if isinstance(v, dict) and isinstance(n["hard_kwargs"][k], dict):
                        inc("nested_dict_merges")
    if any(p.count(".") >= 2 for p in nodes):
        inc("depth3_trees")
    if tree.get("mapping_kind") == "ordered":
        inc("ordered_dict_configs")


def plan(tier: str) -> dict[str, Any]:
    n = 1200 if tier == "quick" else 150000
    return {"cases": n, "budget_s": 90 if tier == "quick" else 1500, "min_per_shard": 30}


def gen_case(idx: int, seed: int, tier: str) -> Any:
    rng = case_rng(PROPERTY, seed, idx)
    tree = gen_logical_tree(rng)
    modes = rng.sample(["class", "ref", "entrypoint", "mixed"], rng.choice([2, 3]))
    return {"tree": tree, "modes": modes, "reuse_mode": modes[0], "mix_seed": rng.randrange(1 << 30), "backend": rng.choice(["asyncio", "trio"])}


def run_case(case: Any) -> dict[str, Any]:
    out: dict[str, Any] = {"violations": [], "counters": {}}
    try:
        run_virtual(case["backend"], scenario, case, out)
    except VirtualDeadlock as e:
        out["violations"].append({"key": "config-deadlock", "msg": str(e), "witness": {"tree": case["tree"]}})
    c = out["counters"]
    nontrivial = c.get("external_overrides", 0) > 0 and (c.get("config_only_children", 0) > 0 or c.get("nested_dict_merges", 0) > 0)
    sample = None
    if nontrivial and len(case["tree"]["nodes"]) <= 6:
        sample = {"tree": case["tree"], "modes": case["modes"]}
    return {"violations": out["violations"], "sig": canon(case["tree"]), "nontrivial": nontrivial, "counters": c, "sample": sample}


LEVEL_TEXT = (
    "Differential run-time oracle on the real start_component: for generated two-layer configurations the keyword arguments every "
    "constructor actually received are compared with an independent model merge at every depth, the set of constructed components with the "
    "logical tree (config-only children included), the trees obtained under class / module:attr / entry-point naming (real importlib.metadata "
    "route) with each other, two consecutive starts with each other, the caller's configuration object with its deep + identity snapshot, and "
    "the names (and ResourceEvents) under which `default` resources added in prepare() / start() appear. Sampled configurations, both backends."
)
LEVEL_NOTE = "Trusted: models/merge.py, the fixture entry points under /verif/fixtures, the harness. Reserved keys in hard-coded kwargs and None for hard-coded children are not generated."
TECHNIQUE = "differential testing against a reference merge model + metamorphic comparison across type-naming modes and repeated starts"
DESIGN_REF = "DESIGN.md section 3, C14"
