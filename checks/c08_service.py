"""C08 - service tasks are stopped at teardown before anything they may depend on.

Deciding method: generated programs (engine E4) interleave resource registrations with teardown
probes, plain teardown callbacks and start_service_task calls (all six kinds of teardown action x
task behaviours: waits to be stopped / ends by itself / needs shielded clean-up time after
cancellation / registers a teardown callback in its own context / uses task_status.started) in root
and nested owner contexts, then end the block at a chosen virtual time.  The expected virtual time
of every teardown event is obtained by folding the LIFO stack; the trace checker compares order and
exact times, counts teardown-action invocations, checks who was (not) cancelled, the snapshot and
parent of the task's context, that no task event follows the owner's exit, and - in crash programs -
that the exception surfaces from the root context.
"""
from __future__ import annotations

from typing import Any

import vkit  # noqa: F401
from engines import e4_tasks as e4
from vkit.harness import case_rng

PROPERTY = "C08"
LEVEL = "exploration"
ENGINE = "E4 task programs"
ANCHORS = ["asphalt.core._context:Context.start_service_task", "asphalt.core._concurrent:run_background_task",
           "asphalt.core._context:Context._run_teardown_callbacks"]
RULE = (
    "random programs: 2-8 registrations in the owner block among {resource with teardown probe, teardown callback, service task, sleep, yields}; "
    "1-4 service tasks with teardown_action in {cancel, None, sync callable, async callable (optionally slow), callable raising Exception, "
    "callable raising BaseException} x {waits to be stopped, ends by itself at d} x clean-up time {0, 0.5, 1, 2} (shielded after cancellation) x "
    "own-context teardown callback x task_status.started(value); root or nested owner; block ends at a random virtual time; 15% crash programs "
    "(task raises while running / after being stopped). "
    "Teardown actions and task functions are functions, partials, hashable / unhashable callable objects, bound methods of built-ins or method-wrappers. "
    "Non-trivial: a service task with registrations both before and after it; distinct = ")
DECIDING = {
    "programs_with_registrations_around_services": "service tasks surrounded by other registrations",
    "action_cancel": "teardown_action='cancel'",
    "action_none": "teardown_action=None (must be awaited, not cancelled)",
    "action_sync_callable": "sync callable",
    "action_async_callable": "async callable",
    "action_raising_callable": "callable raising Exception (fallback to cancellation)",
    "action_raising_base_callable": "callable raising BaseException (fallback to cancellation)",
    "action_raising_cancelled_callable": "callable failing with the backend's cancellation exception (asyncio) / KeyboardInterrupt (trio) although the teardown is not cancelled",
    "services_started_on_the_owner_while_a_child_context_was_current": "start_service_task called on the owner explicitly while another context was current",
    "owner_blocks_ending_with_an_exception": "owner blocks left by an exception (an ordinary, uncancelled teardown)",
    "action_raising_async_callable": "asynchronous callable that raises while awaited (fallback to cancellation)",
    "registrations_made_from_a_component": "programs whose registrations are made from a component's start() (shortcuts through the component context)",
    "service_state_at_teardown_waiting": "task still running when its finalizer starts",
    "service_state_at_teardown_over": "task already finished when teardown reaches it",
    "service_own_teardown_checked": "task's own context torn down before teardown proceeds",
    "crashes_injected": "exceptions escaping a service task",
    "services_started_during_teardown": "service tasks started by a teardown callback while the context was closing",
    "registrations_while_a_service_was_starting": "another task registered a resource while start_service_task() was still waiting for the task to start",
    "action_form_object": "teardown action given as a callable object",
    "action_form_unhashable_object": "teardown action given as an unhashable callable object (__eq__ without __hash__)",
    "action_form_builtin": "teardown action that is a bound method of a built-in object (__module__ is None)",
    "action_form_method_wrapper": "teardown action that is a method-wrapper (no __module__)",
    "action_form_partial": "teardown action given as functools.partial",
    "nested_owner": "owner is a nested context",
    "root_owner": "owner is the root context",
}
ASSUMPTIONS = [
    "the owner's teardown is not cancelled (the statement excludes that); in crash programs only surfacing and 'nothing runs afterwards' are checked",
    "tasks shield their clean-up only after having been cancelled, for a bounded virtual time",
]


def plan(tier: str) -> dict[str, Any]:
    n = 6000 if tier == "quick" else 600000
    return {"cases": n, "budget_s": 90 if tier == "quick" else 1500, "min_per_shard": 50}


def gen_case(idx: int, seed: int, tier: str) -> Any:
    rng = case_rng(PROPERTY, seed, idx)
    return e4.gen_service_program(rng, crash=rng.random() < 0.15)


def run_case(case: Any) -> dict[str, Any]:
    run = e4.execute_service(case)
    V, c = e4.check_service(run)
    c["programs"] = 1
    c[f"backend_{case['backend']}"] = 1
    sample = None
    if c.get("programs_with_registrations_around_services") and len(run.trace) < 60 and not case["crash"]:
        sample = {"program": case, "trace": run.trace.compact(60)}
    return {"violations": V, "sig": run.trace.signature(), "nontrivial": bool(c.get("programs_with_registrations_around_services")) or bool(case["crash"]),
            "counters": c, "sample": sample}


LEVEL_TEXT = (
    "Runtime trace checking in virtual time of generated owner-context programs: the recorded order and the exact virtual times of teardown "
    "probes and of each service task's last event (and its own context's teardown) must equal the schedule obtained by folding the LIFO stack; "
    "invocation counts of teardown actions, observed cancellations, context snapshot/parent, silence after the owner's exit and surfacing of "
    "escaping exceptions are checked. Sampled programs and interleavings on both backends."
)
LEVEL_NOTE = "Trusted: engines/e4_tasks.py (fold of the expected schedule), virtual clocks. The owner's teardown is never cancelled."
TECHNIQUE = "trace checker with exact virtual-time teardown schedule (LIFO fold) as oracle"
DESIGN_REF = "DESIGN.md section 3, C08"
