"""C05 - component trees start in order: construct all, prepare, children, then start.

Deciding method: random component trees (engine E2: classes built with type(), children added in
constructors and through external configuration, every phase a list of steps with randomised virtual
durations, resource publications, waits on other components' resources, teardown registrations and
service tasks; dependencies acyclic by construction) are started with the real start_component on
both backends in virtual time.  Probes in constructors / prepare / start record a trace; the oracle
checks the structural happens-before edges in sequence numbers, exactly-once, and the *exact
schedule*: every step must complete at its longest-path virtual time - one equality that refutes
sequential child start-up, late wake-ups and extra waiting; afterwards ownership (visible in the
caller's context, torn down LIFO when it is left).
"""
from __future__ import annotations

from typing import Any

import vkit  # noqa: F401
from engines import e2_components as e2
from vkit.harness import case_rng

PROPERTY = "C05"
LEVEL = "exploration"
ENGINE = "E2 component-tree programs"
ANCHORS = ["asphalt.core._component:start_component", "asphalt.core._component:_init_component", "asphalt.core._component:_start_component",
           "asphalt.core._component:ComponentContext.get_resource", "asphalt.core._component:ComponentContext.add_teardown_callback"]
RULE = (
    "random trees: depth <= 4, fan-out <= 4, <= 14 components, class shapes none/prepare/start/both, 0-4 steps per phase from {sleep 0.5-3, "
    "yield 1-3, publish (static / factory / multi-type, optional default-name remapping through an alias `kind/name`), wait on an earlier "
    "publication, optional lookup, teardown registration, service task}, children hard-coded with add_component() or supplied through "
    "configuration; timeout None or huge; asyncio and trio (seeded, half fully shuffled). "
    "8% wide trees (one component with 9-24 children, wait-heavy); components publishing themselves with add_resource(self); service tasks needing 0.5-1 virtual seconds inside start_service_task(). "
    "Non-trivial: >= 2 siblings running concurrently ")
DECIDING = {
    "steps_timed": "steps compared with their longest-path virtual time",
    "wait_steps_timed": "waits on another component's resource compared with the exact schedule",
    "parent_descendant_edges_checked": "start()-after-descendants edges checked",
    "trees_with_depth_3plus": "trees with grandchildren",
    "trees_with_concurrent_siblings": "siblings whose phases overlapped in virtual time",
    "teardown_registrations_checked": "registrations checked to be torn down with the caller's context",
    "ownership_checked": "published resources looked for in the caller's context",
    "waits_that_blocked": "waits that had to block (request before publication)",
    "trees_with_inherited_methods": "components inheriting prepare()/start() from an intermediate base class",
    "trees_with_9plus_siblings": "components with 9-24 children started at once",
    "components_publishing_themselves": "components that add themselves as a resource (own class, default name)",
    "reentrant_start_component_calls": "start_component called from inside a component's prepare()/start()",
}
ASSUMPTIONS = ["components do not shield themselves from cancellation; timeout=0 is not generated (DESIGN.md section 4)"]


def plan(tier: str) -> dict[str, Any]:
    n = 4000 if tier == "quick" else 400000
    return {"cases": n, "budget_s": 90 if tier == "quick" else 1500, "min_per_shard": 50}


def gen_case(idx: int, seed: int, tier: str) -> Any:
    rng = case_rng(PROPERTY, seed, idx)
    if idx % 100 == 71:
        # the same component classes started a second (third) time in one process, after they have *gained* a prepare() / start()
        # (a class decorator applied late, a test patching a method in): every start runs the methods the classes have then
        return {"kind": "restart", "backend": rng.choice(["asyncio", "trio"]), "root_gains": rng.choice(["", "prepare", "start", "both"]),
                "child_gains": rng.choice(["prepare", "start", "both"]), "third_start": rng.random() < 0.5}
    if rng.random() < 0.08:
        # a wide component: 9-24 children started at once, many of them waiting for (earlier and later) siblings
        fan = rng.choice([9, 10, 12, 16, 24])
        tree = e2.gen_tree(rng, max_depth=2, max_nodes=fan + 6, root_fan=fan, wait_heavy=True)
    elif rng.random() < 0.04:
        # a deep tree: a chain of 18-24 components, each the only child of the one above (all of them non-leaf components that are
        # starting at the same time, each waiting for the one below)
        depth = rng.choice([18, 20, 24])
        tree = e2.gen_tree(rng, max_depth=depth, max_nodes=depth + 2, chain=True)
    elif rng.random() < 0.02:
        # a *very* wide component: 33-130 children, all of them waiting at once for the child that was declared last
        fan = rng.choice([33, 40, 65, 70, 130])
        tree = e2.add_funnel(e2.gen_tree(rng, max_depth=1, max_nodes=fan + 2, root_fan=fan, with_services=False), rng)
    else:
        tree = e2.gen_tree(rng, wait_heavy=rng.random() < 0.3)
    return {"backend": rng.choice(["asyncio", "trio"]), "sched_seed": rng.randrange(1 << 30), "shuffle": rng.random() < 0.5,
            "timeout": rng.choice([None, None, 1e6]), "probe_ctx": rng.random() < 0.3, "tree": tree}


def tree_features(tree: dict[str, Any]) -> dict[str, int]:
    c: dict[str, int] = {}
    sched = e2.schedule(tree)
    nodes = tree["nodes"]
    depth = max(p.count(".") + 1 if p else 0 for p in nodes)
    if depth >= 2:
        c["trees_with_depth_3plus"] = 1
    if depth >= 17:
        c["trees_with_depth_18plus"] = 1
    if any(len(n["children"]) >= 9 for n in nodes.values()):
        c["trees_with_9plus_siblings"] = 1
    if any(n.get("methods_in_base") and (n["has_prepare"] or n["has_start"]) for n in nodes.values()):
        c["trees_with_inherited_methods"] = 1
    for p, n in nodes.items():
        ch = n["children"]
        iv = [(sched["phase_begin"][(x, "prepare")], sched["phase_end"][(x, "start")]) for x in ch]
        if any(a[0] < b[1] and b[0] < a[1] for i, a in enumerate(iv) for b in iv[i + 1:]):
            c["trees_with_concurrent_siblings"] = 1
            break
    return c


async def restart_scenario(case: dict[str, Any], out: dict[str, Any]) -> None:
    from asphalt.core import Component, Context, start_component

    ran: list[str] = []

    class Kid(Component):
        pass

    class Root(Component):
        def __init__(self) -> None:
            self.add_component("kid", Kid)

    def hooks(who: str, which: str) -> dict[str, Any]:
        async def prepare(self: Any) -> None:
            ran.append(f"{who}.prepare")

        async def start(self: Any) -> None:
            ran.append(f"{who}.start")

        return {k: v for k, v in (("prepare", prepare), ("start", start)) if which in (k, "both")}

    async with Context():
        await start_component(Root)
    out["first"] = list(ran)
    for cls, who, which in ((Root, "root", case["root_gains"]), (Kid, "kid", case["child_gains"])):
        for name, fn in hooks(who, which).items():
            setattr(cls, name, fn)
    starts = []
    for _ in range(2 if case["third_start"] else 1):
        ran.clear()
        async with Context():
            await start_component(Root)
        starts.append(list(ran))
    out["later"] = starts
    # a factory-style component: the class named in add_component() hands out an instance of a concrete subclass (chosen in
    # __new__), and only the concrete class has the methods - it is the component's own class that counts
    class Transport(Component):
        def __new__(cls, *args: Any, **kwargs: Any) -> Any:
            return super().__new__(Tcp if cls is Transport else cls)

    class Tcp(Transport):
        async def prepare(self) -> None:
            ran.append("tcp.prepare")

        async def start(self) -> None:
            ran.append("tcp.start")

    class Root2(Component):
        def __init__(self) -> None:
            self.add_component("transport", Transport)

    ran.clear()
    async with Context():
        await start_component(Root2)
    out["factory_style"] = list(ran)
    order = ["root.prepare", "kid.prepare", "kid.start", "root.start"]
    out["expected"] = [x for x in order if x.split(".")[1] in ({"both": ("prepare", "start")}.get(case["root_gains" if x.startswith("root") else "child_gains"],
                                                                                               (case["root_gains" if x.startswith("root") else "child_gains"],)))]


def run_restart(case: dict[str, Any]) -> dict[str, Any]:
    from vkit.trace import describe_exc
    from vkit.vtime import VirtualDeadlock, run_virtual

    out: dict[str, Any] = {}
    V: list[dict[str, Any]] = []
    try:
        run_virtual(case["backend"], restart_scenario, case, out)
    except VirtualDeadlock as e:
        V.append({"key": "start-deadlock", "msg": str(e), "witness": {"case": case}})
    except Exception as e:
        V.append({"key": "start-raised", "msg": f"starting the same component classes again raised {describe_exc(e)}", "witness": {"case": case}})
    if not V:
        if out["first"]:
            V.append({"key": "start-method-missing", "msg": f"components without prepare()/start() ran {out['first']}", "witness": {"case": case}})
        for i, got in enumerate(out["later"]):
            if got != out["expected"]:
                V.append({"key": "start-method-missing", "msg": f"start #{i + 2} of component classes that had gained their prepare()/start() after the first start ran {got}, "
                                                                f"expected {out['expected']}", "witness": {"case": case}})
                break
        if out["factory_style"] != ["tcp.prepare", "tcp.start"]:
            V.append({"key": "start-method-missing", "msg": f"a component whose class hands out an instance of a concrete subclass from __new__: the concrete class's "
                                                            f"prepare()/start() ran as {out['factory_style']}", "witness": {"case": case}})
    return {"violations": V, "sig": ("restart", tuple(sorted(case.items()))), "nontrivial": True, "counters": {"classes_started_again_after_gaining_methods": 1}, "sample": None}


def run_case(case: Any) -> dict[str, Any]:
    if case.get("kind") == "restart":
        return run_restart(case)
    run = e2.execute(case)
    V, c = e2.check_success(run)
    c.update(tree_features(case["tree"]))
    c["trees"] = 1
    n_sub = sum(1 for e in run.trace.events if e["kind"] == "substarted")
    if n_sub:
        c["reentrant_start_component_calls"] = n_sub
    c[f"backend_{case['backend']}"] = 1
    shape = tuple(sorted((p.count("."), len(n["children"])) for p, n in case["tree"]["nodes"].items()))
    sample = None
    if c.get("trees_with_concurrent_siblings") and c.get("waits_that_blocked") and len(run.trace) < 70:
        sample = {"tree": e2.summarize(case["tree"]), "backend": case["backend"], "trace": run.trace.compact(70)}
    return {"violations": V, "sig": (shape, run.trace.signature()), "nontrivial": bool(c.get("trees_with_concurrent_siblings")),
            "counters": c, "sample": sample}


LEVEL_TEXT = (
    "Runtime trace checking of the real start_component on generated component trees in virtual time: structural happens-before edges, "
    "exactly-once, return value, and equality of every step's virtual completion time with its longest-path time (which decides concurrency "
    "of siblings and absence of extra waiting under every generated dependency pattern), then ownership and LIFO teardown in the caller's "
    "context. Sampled trees, durations and interleavings on both backends."
)
LEVEL_NOTE = "Trusted: engines/e2_components.py (generator keeps dependencies acyclic; schedule() is a longest-path computation), the virtual clocks."
TECHNIQUE = "trace checker with exact virtual-time schedule (longest path) as oracle, over random component trees"
DESIGN_REF = "DESIGN.md section 3, C05"
