"""C03 - one resource per (type, name) per context; failed adds change nothing.

Deciding method: engine E1 with an operation mix dominated by add_resource / add_resource_factory
calls that conflict on the 1st/2nd/3rd type, use invalid names, None values, invalid types and
non-callable teardown callbacks, and orders in which static, factory and generated resources meet
on one pair.  Oracles: expected exception class per call (reference model); failure atomicity by
whole-tree visible-set comparison after *every* raising call, by the dispatch recorder (no event)
and at context exit by the teardown log (no probe of a failed call ever runs); PM-singleton (a pair,
once returned, keeps returning the same object).
"""
from __future__ import annotations

from typing import Any

from checks import _e1_common as common

PROPERTY = "C03"
LEVEL = "exploration"
ENGINE = "E1 context-tree actors"
ANCHORS = [
    "asphalt.core._context:Context.add_resource",
    "asphalt.core._context:Context.add_resource_factory",
    "asphalt.core._context:Context.get_resource_nowait",
    "asphalt.core._context:Context.get_resource",
]
RULE = (
    "random histories as in C02 with 45% add_resource / 20% add_resource_factory commands, 12% deliberately invalid calls (None value, "
    "non-type in types, non-callable teardown_callback, missing factory types, None among factory types), 8% invalid names, multi-type "
    "registrations conflicting on a later type, half of the adds carrying a teardown probe. "
    "Non-callable teardown_callback values of ten kinds (True, 1, 0, containers ...); the very object already registered is added again; add_resource racing with the asynchronous generation of the same pair. "
    "Non-trivial: >= 3 contexts and > 3 distinct ")
DECIDING = {
    "failed_multi_type_adds": "multi-type add failing (conflict possibly on a later type)",
    "failed_add_ValueError": "invalid name / None value",
    "failed_add_TypeError": "invalid types / non-callable teardown callback",
    "failed_add_ResourceConflict": "conflicting add",
    "failed_factory_adds": "failing add_resource_factory",
    "repeat_lookups_of_generated": "pair looked up again after generation (PM-singleton)",
    "contexts_left": "teardown log compared at context exit",
    "visible_set_comparisons": "visible-set comparisons",
    "race_add_during_generation": "add_resource executed while an async multi-type factory of the same name was suspended",
}
ASSUMPTIONS = ["when several reasons for failure apply to one call, any of the corresponding exception classes is accepted"]


def plan(tier: str) -> dict[str, Any]:
    n = 800 if tier == "quick" else 150000
    return {"cases": n, "budget_s": 90 if tier == "quick" else 1500, "min_per_shard": 20}


def gen_case(idx: int, seed: int, tier: str) -> Any:
    return {"seed": f"{seed}:{idx}", "want_sample": idx % 97 == 0, "over": {"p_invalid": 0.12, "p_bad_name": 0.08},
            "weights": {"construct": 8, "enter": 4, "leave": 4, "add_resource": 45, "add_factory": 20, "lookup": 28, "race": 6}}


def run_case(case: Any) -> dict[str, Any]:
    return common.run_case(PROPERTY, case)


LEVEL_TEXT = (
    "Reference-model differential at run time on real contexts: every add (valid, conflicting on any of several types, or invalid in "
    "each documented way) must raise exactly as the model predicts and a raising call must leave the visible set of every context, the "
    "event log and the set of scheduled teardown callbacks unchanged; once a pair has returned an object it keeps returning it. Held on "
    "the sampled histories, both backends."
)
LEVEL_NOTE = "Trusted: models/ctxtree.py, the harness. Unhashable type objects are not generated (generic and Annotated aliases are)."
TECHNIQUE = "lock-step reference model; failure-atomicity by whole-state snapshot comparison after every raising call"
DESIGN_REF = "DESIGN.md section 3, C03"
