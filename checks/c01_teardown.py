"""C01 - context teardown runs every callback exactly once, LIFO, one at a time.

Deciding method: generated teardown programs (engine E3) are executed against the real Context on
both backends in virtual time; harness-owned probes record register/begin/end events and the
outcome is recorded at the ``async with`` boundary; an offline trace checker simulates the LIFO
stack and checks exactly-once, non-overlap, the pass_exception argument (identity), grouping of
raised exceptions and the boundary outcome.  Cancellation is swept over every probe event of a
program (body *and* teardown), plus native asyncio task.cancel().
"""
from __future__ import annotations

import copy
from typing import Any

import vkit  # noqa: F401
from engines import e3_teardown as e3
from vkit.harness import case_rng

PROPERTY = "C01"
LEVEL = "fault_enumeration"
ENGINE = "E3 teardown programs"
ANCHORS = [
    "asphalt.core._context:Context._run_teardown_callbacks",
    "asphalt.core._context:Context.__aexit__",
    "asphalt.core._context:Context.add_teardown_callback",
    "asphalt.core._context:context_teardown",
    "asphalt.core._context:Context.start_service_task",
]
RULE = (
    "random teardown programs: 0-8 callbacks (+ up to 2 levels of callbacks registered by running callbacks) x routes "
    "{add_teardown_callback, module shortcut, add_resource(teardown_callback=), @context_teardown, service-task finalizer} x "
    "{sync, async with 0-2 checkpoints/virtual sleeps, sync returning an awaitable} x pass_exception x raises one of "
    "{ValueError, custom Exception, ExceptionGroup, KeyboardInterrupt, SystemExit, custom BaseException} or nothing; block ends "
    "by return / each exception class; driven by plain `async with`, by an AsyncExitStack whose later exit raises, by an explicit "
    "__aexit__ call, inside or outside a caller's except handler; root or nested; asyncio and trio (seeded, half fully shuffled). "
    "Sweep cases re-run one program once per probe event i, delivering cancellation (anyio scope; native task.cancel on asyncio) "
    "right after event i, for every i incl. the events of the teardown itself. "
    "Callbacks are plain functions, partials or (hashable / unhashable) callable objects; @context_teardown functions are also called as methods and with another Context as argument, and their generators may return or raise before the yield or yield twice. "
    "Non-trivial: >= 2 callbacks invoked or a callback raised or cancellation delivered; distinct = distinct interleaving signature "
    "(sequence of (actor, event-kind)) together with program shape."
)
DECIDING = {
    "base_exception_then_later_callback_ran": "a callback raised a BaseException and a later callback was observed",
    "registered_during_teardown": "callbacks registered while teardown was running",
    "pass_exception_checked_with_exception": "pass_exception argument compared by identity with a real block exception",
    "cancel_delivered_during_teardown": "cancellation delivered while teardown callbacks were running",
    "cancel_interrupted_a_callback": "an async callback was interrupted by cancellation",
    "contexts_mixing_3plus_routes": "relative order across >= 3 registration routes observed",
    "async_callbacks_with_checkpoints": "non-overlap observable (async callbacks that yield)",
    "programs_with_2plus_raising": "several callbacks raising in one teardown",
    "callback_reraised_block_exception": "a pass_exception / @context_teardown callback re-raising the exception it received",
    "driver_stack": "exit driven by AsyncExitStack",
    "driver_manual": "exit driven by explicit __aexit__",
    "driven_inside_except_handler": "exit driven inside a caller's except handler",
    "native_cancel_runs": "native asyncio cancellation",
    "ctxteardown_called_with_another_context": "@context_teardown function/method called with a Context other than the current one as argument",
    "callback_form_partial": "callbacks given as functools.partial",
    "callback_form_object": "callbacks given as objects with (async) __call__",
}
ASSUMPTIONS = [
    "callbacks that block for ever or shield themselves from cancellation are not generated",
    "service-task route is only generated for uncancelled teardowns (C08 statement excludes cancelled ones)",
    "an async callback interrupted by cancellation at a checkpoint counts as completed (by raising)",
]


def plan(tier: str) -> dict[str, Any]:
    if tier == "quick":
        return {"cases": 6000 + 240, "n_prog": 6000, "budget_s": 60, "min_per_shard": 100}
    return {"cases": 2000000 + 60000, "n_prog": 2000000, "budget_s": 1500, "min_per_shard": 1000}


def priority_cases(tier: str) -> list[int]:
    """the cancellation sweeps sit at the end of the index range; a spread sample of them runs first, so that a worker that is cut off
    at its budget on a loaded machine has done its share of them (their deciding counters would otherwise stay at zero)"""
    p = plan(tier)
    return list(range(p["n_prog"], p["cases"], 8 if tier == "quick" else 40))


def gen_case(idx: int, seed: int, tier: str) -> Any:
    p = plan(tier)
    rng = case_rng(PROPERTY, seed, idx)
    if idx < p["n_prog"] and idx % 100 == 37:
        # a *big* context: 64-300 callbacks registered in the block, and a chain of up to 160 more in which each one is registered by
        # the one before it while the teardown is already running
        return {"kind": "bulk", "backend": rng.choice(["asyncio", "trio"]), "n": rng.choice([64, 65, 100, 129, 257, 300]),
                "chain": rng.choice([0, 3, 101, 160]), "leave": rng.choice(["return", "raise", "cancel", "cancel"]), "nested": rng.random() < 0.5}
    if idx < p["n_prog"]:
        return {"kind": "program", "prog": e3.gen_program(rng, max_cbs=8 if tier == "quick" or rng.random() < 0.9 else 40)}
    return {"kind": "sweep", "prog": e3.gen_program(rng, max_cbs=5, for_sweep=True), "only": None}


def _run_one(prog: dict[str, Any]) -> tuple[e3.Run, list[dict[str, Any]]]:
    run = e3.execute(prog)
    return run, e3.check_trace(run)


class _Boom(Exception):
    pass


async def bulk_scenario(case: dict[str, Any], out: dict[str, Any]) -> None:
    import functools

    import anyio

    from asphalt.core import Context, add_teardown_callback

    n, chain = case["n"], case["chain"]
    ran: list[Any] = []
    got: dict[Any, Any] = {}
    boom = _Boom("the block failed")

    async def block(ctx: Any) -> None:
        def plain(i: int) -> None:
            ran.append(i)

        async def with_exc(i: int, exc: Any) -> None:
            got[i] = exc
            ran.append(i)

        def link(k: int) -> None:
            # the k-th link of the chain: registers the next one while the teardown is running
            ran.append(("chain", k))
            if k < chain:
                ctx.add_teardown_callback(functools.partial(link, k + 1))

        for i in range(n):
            if i % 3 == 0:
                ctx.add_teardown_callback(functools.partial(plain, i))
            elif i % 3 == 1:
                ctx.add_resource(object(), f"res{i}", teardown_callback=functools.partial(plain, i))
            else:
                add_teardown_callback(functools.partial(with_exc, i), pass_exception=True)
        if chain:
            ctx.add_teardown_callback(functools.partial(link, 1))
        if case["leave"] == "raise":
            raise boom

    outcome: Any = None
    ctx_ref: list[Any] = []

    async def main() -> None:
        nonlocal outcome
        with anyio.CancelScope() as scope:
            try:
                async with Context() as ctx:
                    ctx_ref.append(ctx)
                    await block(ctx)
                    if case["leave"] == "cancel":
                        scope.cancel()
                        await anyio.sleep(1)
                outcome = ("returned",)
            except Exception as e:
                outcome = ("raised", e)
        if scope.cancelled_caught:
            outcome = ("cancelled",)

    if case["nested"]:
        async with Context():
            await main()
    else:
        await main()
    V = out["violations"]

    def bad(key: str, msg: str) -> None:
        if not any(v["key"] == key for v in V):
            V.append({"key": key, "msg": msg, "witness": {"case": case, "ran_first_10": repr(ran[:10]), "ran_last_10": repr(ran[-10:]), "n_ran": len(ran)}})

    expected = [("chain", k) for k in range(1, chain + 1)] + list(range(n - 1, -1, -1))
    missing = [x for x in expected if x not in ran]
    if missing:
        bad("teardown-missed", f"{len(missing)} of {len(expected)} teardown callbacks of a context with {n} callbacks (+ a chain of {chain} registered during the teardown) "
                               f"never ran after the block was left by {case['leave']}; first missing: {missing[:3]}")
    elif len(ran) != len(expected):
        bad("teardown-twice", f"{len(ran)} invocations for {len(expected)} callbacks")
    elif ran != expected:
        first = next(i for i, (a, b) in enumerate(zip(ran, expected)) if a != b)
        bad("teardown-order", f"callbacks did not run in reverse order of registration: position {first} ran {ran[first]}, expected {expected[first]}")
    want_exc = boom if case["leave"] == "raise" else None
    wrong = [i for i, e in got.items() if (e is not want_exc) and not (case["leave"] == "cancel" and isinstance(e, BaseException))]
    if wrong:
        bad("teardown-arg", f"pass_exception callbacks {wrong[:3]} received {got[wrong[0]]!r}")
    want = {"return": ("returned",), "raise": ("raised", boom), "cancel": ("cancelled",)}[case["leave"]]
    if outcome is None or outcome[0] != want[0] or (want[0] == "raised" and outcome[1] is not boom):
        bad("teardown-outcome", f"the block was left by {case['leave']} and no callback raised, yet the caller observed {outcome!r}")
    if ctx_ref and not ctx_ref[0].closed:
        bad("teardown-closed-flag", "the context does not report itself closed")
    c = out["counters"]
    c["bulk_contexts_with_64plus_callbacks"] = 1
    if chain > 100:
        c["bulk_contexts_with_a_chain_of_100plus_callbacks_registered_during_teardown"] = 1
    if case["leave"] == "cancel":
        c["bulk_contexts_left_by_cancellation"] = 1


def run_case(case: Any) -> dict[str, Any]:
    if case["kind"] == "bulk":
        from vkit.vtime import VirtualDeadlock, run_virtual

        out: dict[str, Any] = {"violations": [], "counters": {}}
        try:
            run_virtual(case["backend"], bulk_scenario, case, out)
        except VirtualDeadlock as e:
            out["violations"].append({"key": "teardown-deadlock", "msg": str(e), "witness": {"case": case}})
        return {"violations": out["violations"], "sig": ("bulk", case["n"], case["chain"], case["leave"], case["nested"], case["backend"]), "nontrivial": True,
                "counters": out["counters"], "sample": None}
    counters: dict[str, int] = {}
    violations: list[dict[str, Any]] = []
    sigs: list[Any] = []

    def absorb(run: e3.Run, vs: list[dict[str, Any]], prog: dict[str, Any]) -> None:
        for k, v in e3.features(run).items():
            counters[k] = counters.get(k, 0) + v
        for v in vs:
            v["witness"]["program"] = prog
            violations.append(v)
        sigs.append(run.trace.signature())

    prog = case["prog"]
    run, vs = _run_one(prog)
    absorb(run, vs, prog)
    sample = None
    if case["kind"] == "sweep":
        base_events = [(e["seq"], e["t"] or 0.0) for e in run.trace.events if e["kind"] not in ("start", "finish")]
        indices = list(range(len(base_events)))
        if case.get("only") is not None:
            indices = [i for i in indices if i in case["only"]]
        for i in indices:
            seq, t = base_events[i]
            variants = [False] + ([True] if prog["backend"] == "asyncio" else [])
            for native in variants:
                p2 = copy.deepcopy(prog)
                p2["cancel"] = {"after_event": seq, "t": t, "native": native}
                r2, v2 = _run_one(p2)
                absorb(r2, v2, p2)
        counters["sweeps"] = 1
    nontrivial = counters.get("callbacks_invoked", 0) >= 2 or bool(run.raised) or case["kind"] == "sweep"
    if len(run.trace) > 12 or case["kind"] == "sweep":
        sample = {"program": {k: prog[k] for k in ("backend", "driver", "in_handler", "nested", "end")},
                  "callbacks": [{k: cb[k] for k in ("id", "route", "kind", "pass_exception", "raises")} for cb in e3.all_cbs(prog)][:8],
                  "trace": run.trace.compact(40), "boundary": e3.describe_exc(run.boundary)}
    # one violation per key is enough per case
    seen, uniq = set(), []
    for v in violations:
        if v["key"] not in seen:
            seen.add(v["key"])
            uniq.append(v)
    return {"violations": uniq, "sig": (sigs, prog["driver"], prog["nested"]), "nontrivial": nontrivial,
            "counters": counters, "sample": sample}


LEVEL_TEXT = (
    "Runtime trace checking of the real Context under generated teardown programs with fault injection: every exception class "
    "from every subset of callbacks, every way of ending and driving the block, and cancellation delivered after every probe "
    "event of swept programs (enumerated per program), on asyncio and trio. The oracle is an offline checker over probe events "
    "(LIFO stack simulation, exactly-once, non-overlap, identity of the pass_exception argument, one group holding exactly the "
    "raised exceptions, boundary outcome, closed flag). Held on the executions produced; programs are sampled, cancellation "
    "points are exhaustive per swept program."
)
LEVEL_NOTE = (
    "Trusted: the probes/oracle in engines/e3_teardown.py and anyio/trio themselves. Callbacks that block for ever or shield "
    "themselves are not generated; at most 40 callbacks per context in the random programs, 64-300 (+ chains of up to 160 registered during the teardown) in the bulk cases."
)
TECHNIQUE = "offline trace checker over probe events from fault-injected executions (exceptions x cancellation sweep), virtual time, both backends"
DESIGN_REF = "DESIGN.md section 3, C01"
